#!/usr/bin/env python3
"""Property-level driver:  run.py --property Cxx --tier quick|thorough [--jobs N] [--only harness,...]

exit 0  every obligation of the property discharged (known findings printed as KNOWN-FINDING)
exit 1  a violation that reproduced natively and is not a listed known finding (VIOLATION line)
exit 2  inconclusive (timeout, out of memory, unwinding assertion, vacuous harness, solver error,
        counterexample that did not reproduce) — never reported as a pass or as a violation
Evidence is written to evidence/<id>.json on every run.
"""
import argparse, json, os, sys, time, re, concurrent.futures as cf

HERE = os.path.dirname(os.path.abspath(__file__))
sys.path.insert(0, os.path.join(HERE, "vlib"))
import kanirun
from table import HARNESSES, PROPERTIES
sys.path.insert(0, os.path.join(HERE, "mir2smt"))
import queries as mq

KNOWN = os.path.join(HERE, "known_findings.json")


def finding_key(prop, fail):
    """role-level identity of a counterexample: property, function the check sits in, message"""
    loc = fail["loc"]
    m = re.search(r"in function (.*)$", loc)
    fn = m.group(1) if m else loc
    fn = re.sub(r"::\{closure#\d+\}", "", fn)
    desc = fail["desc"]
    return f"{prop}|{fn}|{desc}"


def load_known():
    if not os.path.exists(KNOWN):
        return []
    return json.load(open(KNOWN)).get("findings", [])


MEM_RE = re.compile(r"pointer|dereference|out of bounds|memcpy|object bounds|deallocat|free|misaligned|null", re.I)


def classify_failure(h, res, prop, known):
    """For every distinct failing check that is not a listed known finding: obtain the solver's
    values for the symbolic inputs on a path violating that check and replay the same harness
    natively (real crate, real kernel; dev and release profile)."""
    out = []
    seen = set()
    for f in res["failed"]:
        k = finding_key(prop, f)
        if k in seen:
            continue
        seen.add(k)
        kf = [x for x in known if x["key"] == k and x["property"] == prop]
        if kf:
            out.append(dict(key=k, kind="known", what=kf[0]["what"]))
            continue
        cap = HARNESSES[h].get("max_examined", 4)
        if len([o for o in out if o["kind"] != "known"]) >= cap:
            # one reproduced counterexample per harness is enough to report; the rest is listed
            out.append(dict(key=k, kind="also-failing", detail=f"not replayed (more than {cap} distinct failing checks in this harness)"))
            continue
        if not res.get("cbmc_cmd"):
            out.append(dict(key=k, kind="not-reproduced", detail="cbmc command line not captured"))
            continue
        vals, violated = kanirun.extract_values(res["cbmc_cmd"], f["check"])
        if not violated:
            out.append(dict(key=k, kind="not-reproduced", detail="no trace for this check"))
            continue
        nat = [kanirun.replay_native(h, values=vals, profile=prof) for prof in ("dev", "release")]
        os.makedirs(os.path.join(HERE, "evidence", "replays"), exist_ok=True)
        rp = os.path.join(HERE, "evidence", "replays", f"{prop}.{h}.{len(out)}.json")
        json.dump(dict(property=prop, harness=h, failed_check=f, values=vals, native=nat,
                       how_to="cd /verif/replay && RUSTFLAGS='--cfg ipc_channel_verif' cargo build --offline && "
                              "target/debug/replay %s <file with the 'values' list>" % h), open(rp, "w"), indent=1)
        bad = [o for o in nat if o["outcome"] in ("panic", "abort", "blocks-forever", "hang")]
        if bad:
            kind = "reproduced"
        elif MEM_RE.search(f["desc"]) and "index out of bounds" not in f["desc"]:
            kind = "ub"
        else:
            kind = "not-reproduced"
        out.append(dict(key=k, kind=kind, replay=rp, native=[(o["profile"], o["outcome"], o.get("panic", "")) for o in nat]))
    return out


def work(h, prop, tier, known):
    d = HARNESSES[h]
    r = kanirun.run_harness(h, d["features"], d.get("loops"), d.get("timeout", 900) * (3 if tier == "thorough" else 1),
                            d.get("mem_gb", 14), keep=True, optional_witnesses=d.get("opt", ()))
    try:
        if r["verdict"] == "FAIL":
            r["classified"] = classify_failure(h, r, prop, known)
    finally:
        kanirun.cleanup(h)
    return r


def main():
    ap = argparse.ArgumentParser()
    ap.add_argument("--property", required=True)
    ap.add_argument("--tier", default=os.environ.get("VERIF_TIER", "quick"))
    ap.add_argument("--jobs", type=int, default=int(os.environ.get("VERIF_JOBS", "8")))
    ap.add_argument("--only", default="")
    ap.add_argument("--no-evidence", action="store_true")
    a = ap.parse_args()
    prop = a.property
    tier = "thorough" if a.tier == "thorough" else "quick"
    seed = int(os.environ.get("VERIF_SEED", "0") or 0)
    P = PROPERTIES[prop]
    t0 = time.time()
    kanirun.sync_lock()
    def in_tier(d):
        t = d.get("tiers", {}).get(prop, d.get("tier", "quick"))
        return tier == "thorough" or t == "quick"
    hs = [h for h, d in HARNESSES.items() if prop in d["props"] and in_tier(d)]
    if a.only:
        hs = [h for h in hs if h in a.only.split(",")]
    known = load_known()
    results = {}
    # The queueing-kernel harnesses report SO_SNDBUF = 64 (outside the property's "from 4 KiB up") to keep
    # packets small, and are laid out for the 32-/24-byte fragments that gives on this code base.  If the
    # tree's size functions say otherwise at 64 (or panic there), those harnesses do not apply: they are
    # reported inconclusive instead of turning an artefact of the tiny buffer into a violation.
    cfg_skip = None
    if any("k_q" in HARNESSES[h]["features"] for h in hs):
        try:
            cfg = mq.small_config(64)
            if cfg != (32, 24):
                cfg_skip = f"harness configuration does not apply to this tree: fragment_size(64), first_fragment_size(64) = {cfg} (None = panics), the queueing-kernel harnesses are laid out for (32, 24)"
        except Exception as e:  # translation failure
            cfg_skip = f"could not evaluate the size functions at 64: {e}"
    # build the native replay binary up front (also proves the harness code runs against the real crate)
    nat_dev, nat_log = kanirun.build_native("dev")
    with cf.ThreadPoolExecutor(max_workers=a.jobs) as ex:
        run_now = [h for h in hs if not (cfg_skip and "k_q" in HARNESSES[h]["features"])]
        for h in hs:
            if h not in run_now:
                results[h] = dict(harness=h, verdict="INCONCLUSIVE", reason=cfg_skip, failed=[], covers={}, stats={})
        futs = {ex.submit(work, h, prop, tier, known): h for h in run_now}
        for f in cf.as_completed(futs):
            h = futs[f]
            try:
                results[h] = f.result()
            except Exception as e:  # pragma: no cover
                import traceback
                traceback.print_exc()
                results[h] = dict(harness=h, verdict="INCONCLUSIVE", reason=f"runner exception {e!r}", failed=[], covers={}, stats={})
            r = results[h]
            print(f"[{prop}] {h}: {r['verdict']} {r.get('reason','')} "
                  f"(symex {r['stats'].get('symex_s','?')}s solver {r['stats'].get('solver_s','?')}s checks {r['stats'].get('checks','?')})", flush=True)
    # engine E2: full-width SMT queries over the MIR of the size arithmetic
    smt = None
    if any(prop in q[1] for q in mq.QUERIES) and not a.only:
        smt = mq.run_queries([prop])
        if not smt["error"] and nat_dev:
            smt["translator_validation"] = mq.validate_translator(smt["prefix"], nat_dev, seed)
        smt.pop("prefix", None)
        for q in smt.get("results", []):
            print(f"[{prop}] M-query {q['id']}: {q['verdict']} (z3 {q['z3']} {q['z3_s']}s, cvc5 {q['cvc5']} {q['cvc5_s']}s)", flush=True)
    # model validation: every harness of this property is also executed natively (real kernel) with
    # pseudo-random inputs; a native panic on a harness that the solver passed means model and
    # kernel disagree => inconclusive
    validation = []
    if nat_dev:
        for h in hs:
            if results[h]["verdict"] != "PASS" or HARNESSES[h].get("no_native"):
                continue
            okc = 0
            for s in range(seed * 100 + 1, seed * 100 + 1 + (40 if tier == "thorough" else 12)):
                o = kanirun.replay_native(h, seed=s, profile="dev", timeout=20)
                if o["outcome"] == "end-reached":
                    okc += 1
                elif o["outcome"] in ("assumption-failed",):
                    continue
                else:
                    validation.append(dict(harness=h, seed=s, outcome=o))
                    break
            results[h]["native_validation_runs"] = okc
    violations, known_hits, inconclusive, also_failing = [], [], [], []
    for h, r in results.items():
        if r["verdict"] == "PASS":
            continue
        if r["verdict"] == "INCONCLUSIVE":
            inconclusive.append((h, r["reason"]))
            continue
        for c in r.get("classified", []):
            if c["kind"] == "known":
                known_hits.append((h, c["key"], c["what"]))
            elif c["kind"] == "reproduced":
                violations.append((h, [c["key"]], c["replay"]))
            elif c["kind"] == "ub":
                inconclusive.append((h, "UB-BY-READING (CBMC memory-model failure not observable natively, needs triage): " + c["key"]))
            elif c["kind"] == "also-failing":
                also_failing.append((h, c["key"]))
            else:
                inconclusive.append((h, f"counterexample {c['kind']}: {c['key']} {c.get('detail','')} {c.get('native','')}"))
    if smt is not None:
        tv = smt.get("translator_validation", {"ok": False, "detail": "not run"})
        if smt["error"]:
            inconclusive.append(("M-queries", smt["error"]))
        elif not tv["ok"]:
            inconclusive.append(("M-queries", "translator validation failed: " + tv["detail"]))
        else:
            for q in smt["results"]:
                if q["verdict"] == "inconclusive":
                    inconclusive.append(("M-query " + q["id"], f"z3={q['z3']} cvc5={q['cvc5']}"))
                elif q["verdict"] == "counterexample":
                    # the translation agreed with the real functions on the validation inputs, and both
                    # solvers produced a model: write it out as the replay
                    os.makedirs(os.path.join(HERE, "evidence", "replays"), exist_ok=True)
                    rp = os.path.join(HERE, "evidence", "replays", f"{prop}.smt.{q['id']}.json")
                    json.dump(dict(property=prop, query=q, how_to="evaluate the real functions at these inputs: replay --eval-sizes <values>"), open(rp, "w"), indent=1)
                    key = f"{prop}|M-query|{q['id']}"
                    kf = [x for x in known if x["key"] == key and x["property"] == prop]
                    if kf:
                        known_hits.append(("M-query", key, kf[0]["what"]))
                    else:
                        violations.append(("M-query " + q["id"], [key + " " + json.dumps(q.get("model", {}))], rp))
    for v in validation:
        inconclusive.append((v["harness"], f"model/kernel disagreement: native run with seed {v['seed']} -> {v['outcome']['outcome']} {v['outcome'].get('panic','')}"))
    wall = round(time.time() - t0, 1)
    if not a.no_evidence and not a.only:
        write_evidence(prop, P, tier, seed, hs, results, violations, known_hits, inconclusive, wall, smt)
    seen = set()
    for h, k, what in known_hits:
        if k not in seen:
            seen.add(k)
            print(f"KNOWN-FINDING: property={prop} {what} [{k}]")
    # failing checks that were not replayed count only when nothing of that harness was reproduced
    for h, k in also_failing:
        if not any(v[0] == h for v in violations):
            inconclusive.append((h, "failing check not replayed: " + k))
    for h, why in inconclusive:
        print(f"INCONCLUSIVE: property={prop} harness={h} {why}")
    for h, keys, rp in violations:
        print(f"VIOLATION property={prop} replay={rp}")
        for k in keys:
            print(f"  harness={h} {k}")
    if violations:
        sys.exit(1)
    if inconclusive or (not hs and smt is None):
        sys.exit(2)
    print(f"OK property={prop} tier={tier} harnesses={len(hs)} wall={wall}s")
    sys.exit(0)


def write_evidence(prop, P, tier, seed, hs, results, violations, known_hits, inconclusive, wall, smt=None):
    samples = []
    fns = set()
    tot = dict(checks=0, vccs=0, symex=0.0, solver=0.0, native=0)
    passed = 0
    for h in hs:
        r = results[h]
        d = HARNESSES[h]
        st = r.get("stats", {})
        fns.update(st.get("crate_functions", []))
        tot["checks"] += st.get("checks", 0)
        tot["vccs"] += st.get("vccs", 0)
        tot["symex"] += st.get("symex_s", 0) or 0
        tot["solver"] += st.get("solver_s", 0) or 0
        tot["native"] += r.get("native_validation_runs", 0)
        if r["verdict"] == "PASS":
            passed += 1
        samples.append(dict(harness=h, kernel=d["features"], verdict=r["verdict"], reason=r.get("reason", ""),
                            symbolic_inputs=d.get("sym", ""), bounds=d.get("bounds", ""),
                            cbmc_checks=st.get("checks"), checks_by_status=st.get("checks_by_status"), vccs=st.get("vccs"),
                            sat_vars=st.get("sat_vars"), symex_s=st.get("symex_s"), solver_s=st.get("solver_s"),
                            covers=r.get("covers"), failed=r.get("failed"),
                            native_validation_runs=r.get("native_validation_runs", 0)))
    nq = len(smt["results"]) if smt and not smt.get("error") else 0
    nq_ok = sum(1 for q in (smt or {}).get("results", []) if q["verdict"] == "holds")
    for q in (smt or {}).get("results", []):
        samples.append(dict(smt_query=q["id"], text=q["text"], premises=q["premises"], claim=q["claim"], verdict=q["verdict"],
                            z3=q["z3"], z3_s=q["z3_s"], cvc5=q["cvc5"], cvc5_s=q["cvc5_s"], width="64-bit bit-vectors, no bound"))
    ev = dict(
        property_id=prop, tier=tier, seed=seed, level="model_checking",
        coverage=dict(
            evaluations=len(hs) + nq,
            distinct_nontrivial=passed + nq_ok,
            rule="one evaluation = one Kani/CBMC harness over the real crate code compiled from /repo's working tree, "
                 "decided by the SAT solver for all values of its symbolic inputs within the stated bounds; non-trivial = "
                 "verdict SUCCESSFUL with every unwinding assertion passing and the end of the harness reachable (cover REACH_END satisfied)",
            samples=samples,
            obligations=tot["checks"], discharged=sum((results[h].get("stats", {}).get("checks_by_status", {}) or {}).get("SUCCESS", 0) for h in hs),
            vccs=tot["vccs"], symex_s=round(tot["symex"], 1), solver_s=round(tot["solver"], 1),
            traces_validated_against_impl=tot["native"],
            functions_encoded=sorted(fns),
            bounds=P.get("bounds", ""), outside=P.get("outside", ""),
            checker_cmd="cargo kani -Z c-ffi -Z stubbing --features <kernel> --harness <h> --cbmc-args --unwindset <generated> (CBMC 6.11, CaDiCaL)",
            smt_queries=nq, smt_queries_holding=nq_ok,
            smt_functions_translated=(smt or {}).get("functions", []), smt_translator_validation=(smt or {}).get("translator_validation"),
            smt_wall_s=(smt or {}).get("wall_s"),
            known_findings=[k for _, k, _ in known_hits], inconclusive=[f"{h}: {w}" for h, w in inconclusive],
        ),
        assumptions=P.get("assumptions", []) + COMMON_ASSUMPTIONS,
        wall_s=wall, violations=len(violations))
    os.makedirs(os.path.join(HERE, "evidence"), exist_ok=True)
    json.dump(ev, open(os.path.join(HERE, "evidence", f"{prop}.json"), "w"), indent=1)


COMMON_ASSUMPTIONS = [
    "model kernel (kani/src/kq.rs or krec.rs) stands in for Linux: DESIGN §3 rules 1-7",
    "hook H1: UnixError::last() reads errno directly under cfg(kani)",
    "hook H2: ipc.rs side tables are statics instead of thread_local under cfg(kani) (Kani is single-threaded)",
    "alloc::fmt::format stubbed to return an empty String (messages / shm name unobservable)",
    "error-value drop glue recursion capped at depth 1, guarded by CBMC's recursion unwinding assertion",
    "allocation never fails (Kani default --no-malloc-may-fail)",
    "Kani builds the dev profile (debug assertions on); native replays run dev and release",
]

if __name__ == "__main__":
    main()
