//! C05 / C18 — shared-memory regions: created, cloned, sent, received, outliving their senders.
//! Lengths are concrete per harness, contents and the fill byte are solver variables.  The model
//! backs a region with an allocation of exactly its length, freed when the last descriptor and
//! mapping are gone: an over-read is a CBMC bounds violation, a read after the last unmap/close a
//! use-after-free.
use crate::env;
use crate::util::*;
use crate::harnesses;
#[cfg(not(kani))]
use crate::kani;
use ipc_channel::ipc::{self, IpcSharedMemory};
use ipc_channel::platform::{self, verif_hooks as ph, OsIpcSharedMemory};

fn end_ledger() {
    assert!(env::nopen() == 0, "C11: descriptor left open");
    assert!(env::nmapped() == 0, "C11: mapping left");
    assert!(!env::bad_close(), "C11: close of a descriptor that was not open");
    assert!(!env::bad_unmap(), "C11/C18: munmap of something that is not a live mapping of that length");
    assert!(!env::trunc_data() && !env::trunc_ctl(), "C18: a read truncated a packet or its descriptors");
    assert!(!env::model_bound_exceeded(), "MODEL-BOUND");
    crate::reach_end!();
}

/// region A from bytes (length L, `clones` clones taken), region B from a fill byte (length M);
/// both sent in one message in the given order, received, and read after every sender-side
/// handle and the carrying channel are gone
fn platform_two<const L: usize, const M: usize>(clones: usize, b_first: bool) {
    setup(64);
    env::set_block_is_violation(true);
    let d: [u8; L] = kani::any();
    let a = OsIpcSharedMemory::from_bytes(&d[..]);
    assert!(a.len() == L, "C05: length of a new region");
    let i = any_usize_in(0, L - 1);
    assert!(a[i] == d[i], "C05: creator reads back other bytes");
    let mut cl = Vec::new();
    let mut k = 0;
    while k < clones {
        let c = a.clone();
        assert!(c.len() == L && c[i] == d[i], "C05: clone differs");
        cl.push(c);
        k += 1;
    }
    let fill: u8 = kani::any();
    let b = OsIpcSharedMemory::from_byte(fill, M);
    let j = any_usize_in(0, M - 1);
    assert!(b.len() == M && b[j] == fill, "C05: filled region differs");
    let (tx, rx) = platform::channel().unwrap();
    let regs = if b_first { vec![b, a] } else { vec![a, b] };
    tx.send(&[9u8], vec![], regs).unwrap();
    drop(cl);
    drop(tx);
    let (data, ch, mut got) = rx.recv().unwrap();
    drop(rx);
    assert!(data.len() == 1 && data[0] == 9 && ch.is_empty(), "C04: data / channels of the carrying message");
    assert!(got.len() == 2, "C05: number of regions");
    let (ga, gb) = if b_first { (&got[1], &got[0]) } else { (&got[0], &got[1]) };
    assert!(ga.len() == L && gb.len() == M, "C05: received lengths");
    assert!(ga[i] == d[i], "C05: received contents differ");
    assert!(gb[j] == fill, "C05: received fill differs");
    drop(got);
    end_ledger();
}

fn ipc_one<const L: usize>() {
    setup(64);
    env::set_block_is_violation(true);
    let d: [u8; L] = kani::any();
    let m = IpcSharedMemory::from_bytes(&d[..]);
    assert!(m.len() == L);
    let (tx, rx) = ipc::channel::<(IpcSharedMemory, u8, IpcSharedMemory)>().unwrap();
    let fill: u8 = kani::any();
    tx.send((m.clone(), 5, IpcSharedMemory::from_byte(fill, 2))).unwrap();
    drop(m);
    drop(tx);
    let (g, five, f) = rx.recv().unwrap();
    drop(rx);
    assert!(five == 5 && g.len() == L && f.len() == 2 && f[1] == fill, "C05: ipc-level regions");
    if L > 0 {
        let i = any_usize_in(0, L - 1);
        assert!(g[i] == d[i], "C05: ipc-level contents differ");
    }
    drop((g, f));
    end_ledger();
}

harnesses! {
    #[unwind(10)] fn shm_platform_1_1() { platform_two::<1, 1>(0, false) }
    #[unwind(10)] fn shm_platform_3_2_clone() { platform_two::<3, 2>(1, false) }
    #[unwind(10)] fn shm_platform_8_5_clone2_swapped() { platform_two::<8, 5>(2, true) }
    #[unwind(10)] fn shm_ipc_0() { ipc_one::<0>() }
    #[unwind(10)] fn shm_ipc_3() { ipc_one::<3>() }
    #[unwind(10)] fn shm_ipc_8() { ipc_one::<8>() }

    // C18: zero-length regions at the platform level (the `platform` module is public API)
    #[unwind(10)] fn shm_zero_from_bytes() {
        setup(64);
        let z = OsIpcSharedMemory::from_bytes(&[]);
        assert!(z.len() == 0);
        let s: &[u8] = &z;
        assert!(s.is_empty());
        let c = z.clone();
        assert!(c == z);
        drop((c, z));
        end_ledger();
    }
    #[unwind(10)] fn shm_zero_from_byte() {
        setup(64);
        let b: u8 = kani::any();
        let z = OsIpcSharedMemory::from_byte(b, 0);
        assert!(z.len() == 0);
        let c = z.clone();
        assert!(c == z);
        drop((c, z));
        end_ledger();
    }
    #[unwind(10)] fn shm_zero_received() {
        setup(64);
        env::set_block_is_violation(true);
        let z = OsIpcSharedMemory::from_bytes(&[]);
        let (tx, rx) = platform::channel().unwrap();
        tx.send(&[1u8], vec![], vec![z]).unwrap();
        let (_d, _c, got) = rx.recv().unwrap();
        assert!(got.len() == 1 && got[0].len() == 0);
        let s: &[u8] = &got[0];
        assert!(s.is_empty());
        drop((got, tx, rx));
        end_ledger();
    }
}
