//! C04 — endpoints sent inside messages keep their identity, position and backlog.
//! The attachment layout is concrete per harness; nonces and payload bytes are solver variables.
//! Identity is checked through the environment's descriptor -> kernel-object map.
use crate::env;
use crate::util::*;
use crate::harnesses;
#[cfg(not(kani))]
use crate::kani;
use ipc_channel::ipc::{self, IpcBytesSender, IpcReceiver, IpcSender, IpcSharedMemory, OpaqueIpcSender};
use ipc_channel::platform::{self, verif_hooks as ph, OsIpcChannel, OsIpcReceiver, OsIpcSender, OsIpcSharedMemory};

fn end_ledger() {
    assert!(env::nopen() == 0, "C11: descriptor left open");
    assert!(env::nmapped() == 0, "C11: mapping left");
    assert!(!env::bad_close(), "C11: close of a descriptor that was not open");
    assert!(!env::trunc_data() && !env::trunc_ctl(), "C18: a read truncated a packet or its descriptors");
    assert!(!env::model_bound_exceeded(), "MODEL-BOUND");
    crate::reach_end!();
}

/// layout: kinds[i] = 0 sender / 1 receiver (with `pending` messages already queued on it);
/// `nreg` regions; carrying message of L payload bytes (L > 24 => multi-packet)
fn platform_layout<const L: usize, const N: usize>(kinds: [u8; N], nreg: usize, pending: usize) {
    setup(64);
    env::set_block_is_violation(true);
    let (tx, rx) = platform::channel().unwrap();
    let mut keep_tx: Vec<OsIpcSender> = Vec::new();
    let mut keep_rx: Vec<Option<OsIpcReceiver>> = Vec::new();
    let mut objs = [0i64; N];
    let mut chans = Vec::new();
    let nonce: [u8; N] = kani::any();
    let pend: [u8; 2] = kani::any();
    let mut i = 0;
    while i < N {
        let (atx, arx) = platform::channel().unwrap();
        if kinds[i] == 0 {
            objs[i] = obj(ph::sender_fd(&atx));
            chans.push(OsIpcChannel::Sender(atx.clone()));
            keep_rx.push(Some(arx));
        } else {
            let mut p = 0;
            while p < pending {
                atx.send(&[pend[p]], vec![], vec![]).unwrap();
                p += 1;
            }
            objs[i] = obj(ph::receiver_fd(&arx));
            chans.push(OsIpcChannel::Receiver(arx));
            keep_rx.push(None);
        }
        keep_tx.push(atx);
        i += 1;
    }
    let mut regs = Vec::new();
    let fill: [u8; 2] = kani::any();
    let mut k = 0;
    while k < nreg {
        regs.push(OsIpcSharedMemory::from_byte(fill[k], 2 + k));
        k += 1;
    }
    let data: [u8; L] = kani::any();
    tx.send(&data[..], chans, regs).unwrap();
    let (got, mut gch, greg) = rx.recv().unwrap();
    assert!(got.len() == L, "C01: carrying payload length");
    let di = any_usize_in(0, L - 1);
    assert!(got[di] == data[di], "C01: carrying payload bytes");
    assert!(gch.len() == N, "C04: number of channels (the internal fragment channel must not be among them)");
    assert!(greg.len() == nreg, "C04: number of regions");
    let mut k = 0;
    while k < nreg {
        assert!(greg[k].len() == 2 + k && greg[k][1] == fill[k], "C04/C05: region position or contents");
        k += 1;
    }
    let mut i = 0;
    while i < N {
        if kinds[i] == 0 {
            let s = gch[i].to_sender();
            assert!(obj(ph::sender_fd(&s)) == objs[i], "C04: sender at position i is not the channel that was sent there");
            s.send(&[nonce[i]], vec![], vec![]).unwrap();
            let (d, _, _) = keep_rx[i].as_ref().unwrap().recv().unwrap();
            assert!(d.len() == 1 && d[0] == nonce[i], "C04: transferred sender does not reach its receiver");
        } else {
            let r = gch[i].to_receiver();
            assert!(obj(ph::receiver_fd(&r)) == objs[i], "C04: receiver at position i is not the channel that was sent there");
            let mut p = 0;
            while p < pending {
                let (d, _, _) = r.recv().unwrap();
                assert!(d.len() == 1 && d[0] == pend[p], "C04: pending messages of a transferred receiver, in order");
                p += 1;
            }
            keep_tx[i].send(&[nonce[i]], vec![], vec![]).unwrap();
            let (d, _, _) = r.try_recv().unwrap();
            assert!(d.len() == 1 && d[0] == nonce[i], "C04: transferred receiver does not get later messages");
        }
        i += 1;
    }
    drop((got, gch, greg, keep_tx, keep_rx, tx, rx));
    end_ledger();
}

harnesses! {
    #[unwind(6)] fn attach_platform_s() { platform_layout::<3, 1>([0], 0, 0) }
    #[unwind(6)] fn attach_platform_r_pending2() { platform_layout::<3, 1>([1], 0, 2) }
    #[unwind(6)] fn attach_platform_srs_reg2() { platform_layout::<3, 3>([0, 1, 0], 2, 1) }
    #[unwind(6)] fn attach_platform_rs_multi() { platform_layout::<57, 2>([1, 0], 1, 1) }
    #[unwind(6)] fn attach_platform_sr_multi25() { platform_layout::<25, 2>([0, 1], 0, 0) }

    // every endpoint kind of the ipc layer in one value, with data between them
    #[unwind(8)] fn attach_ipc_mixed() {
        setup(256);
        env::set_block_is_violation(true);
        type V = (IpcSender<u8>, u16, IpcReceiver<u8>, IpcSharedMemory, IpcBytesSender, OpaqueIpcSender, u8);
        let (tx, rx) = ipc::channel::<V>().unwrap();
        let (a_tx, a_rx) = ipc::channel::<u8>().unwrap();
        let (b_tx, b_rx) = ipc::channel::<u8>().unwrap();
        let (c_tx, c_rx) = ipc::bytes_channel().unwrap();
        let (d_tx, d_rx) = ipc::channel::<u8>().unwrap();
        let n: [u8; 4] = kani::any();
        let w: u16 = kani::any();
        let oa = sender_obj(&a_tx);
        let ob = receiver_obj(&b_rx);
        let od = sender_obj(&d_tx);
        b_tx.send(n[1]).unwrap(); // pending on the receiver that travels
        let region = IpcSharedMemory::from_bytes(&[n[0], n[1], n[2]]);
        tx.send((a_tx.clone(), w, b_rx, region, c_tx.clone(), d_tx.clone().to_opaque(), n[3])).unwrap();
        let (ga, gw, gb, greg, gc, gd, g3) = rx.recv().unwrap();
        assert!(gw == w && g3 == n[3], "C04: plain data around the endpoints");
        assert!(sender_obj(&ga) == oa, "C04: IpcSender identity/position");
        assert!(receiver_obj(&gb) == ob, "C04: IpcReceiver identity/position");
        assert!(greg.len() == 3 && greg[0] == n[0] && greg[2] == n[2], "C04/C05: region");
        ga.send(n[0]).unwrap();
        assert!(a_rx.recv().unwrap() == n[0], "C04: transferred sender works");
        assert!(gb.recv().unwrap() == n[1], "C04: backlog of the transferred receiver");
        b_tx.send(n[2]).unwrap();
        assert!(gb.try_recv().unwrap() == n[2], "C04: later message on the transferred receiver");
        gc.send(&[n[3]]).unwrap();
        let cb = c_rx.recv().unwrap();
        assert!(cb.len() == 1 && cb[0] == n[3], "C04: transferred bytes sender works");
        let gd: IpcSender<u8> = gd.to();
        assert!(sender_obj(&gd) == od, "C04: OpaqueIpcSender identity/position");
        gd.send(n[1]).unwrap();
        assert!(d_rx.recv().unwrap() == n[1], "C04: transferred opaque sender works");
        drop((ga, gb, greg, gc, gd, a_tx, a_rx, b_tx, c_tx, c_rx, d_tx, d_rx, tx, rx));
        end_ledger();
    }
    // a serialised receiver's original handle is emptied; two hops
    #[unwind(8)] fn attach_ipc_two_hops() {
        setup(256);
        env::set_block_is_violation(true);
        let (h1_tx, h1_rx) = ipc::channel::<IpcReceiver<u8>>().unwrap();
        let (h2_tx, h2_rx) = ipc::channel::<IpcReceiver<u8>>().unwrap();
        let (t_tx, t_rx) = ipc::channel::<u8>().unwrap();
        let n: [u8; 3] = kani::any();
        let ot = receiver_obj(&t_rx);
        t_tx.send(n[0]).unwrap(); // before the first hop
        h1_tx.send(t_rx).unwrap();
        t_tx.send(n[1]).unwrap(); // between hops (receiver in transit)
        let r1 = h1_rx.recv().unwrap();
        assert!(receiver_obj(&r1) == ot, "C04: identity after hop 1");
        h2_tx.send(r1).unwrap();
        let r2 = h2_rx.recv().unwrap();
        assert!(receiver_obj(&r2) == ot, "C04: identity after hop 2");
        t_tx.send(n[2]).unwrap(); // after the hops
        assert!(r2.recv().unwrap() == n[0] && r2.recv().unwrap() == n[1] && r2.try_recv().unwrap() == n[2], "C04: all messages, in order, over two hops");
        drop((r2, t_tx, h1_tx, h1_rx, h2_tx, h2_rx));
        end_ledger();
    }
}
