//! Queueing model kernel (DESIGN §3): delivers packets and descriptors to the real receive path.
//!
//! Everything is bump-allocated and fixed-slot: fd numbers and object ids are never reused (a
//! double close is always EBADF), every packet owns a fixed `[u8; PKMAX]` slot, every socket
//! endpoint owns a fixed ring of `QCAP` packet ids.  No loop in here depends on a symbolic value
//! except the byte copies (`ptr::copy`, which CBMC treats as an array operation).
//!
//! The libc symbols are *defined* here (`#[no_mangle] extern "C"`); with `-Z c-ffi` CBMC links the
//! crate's foreign calls to them.  A libc function that is called but not defined here fails the
//! run — an unmodelled environment can never turn into a pass.
#![allow(non_upper_case_globals, unused, static_mut_refs, clippy::missing_safety_doc)]
use core::ptr;
use libc::{c_char, c_int, c_uint, c_void, iovec, mode_t, msghdr, off_t, size_t, socklen_t, ssize_t};

#[cfg(not(feature = "bigfd"))]
pub const NFD: usize = 56;
#[cfg(feature = "bigfd")]
pub const NFD: usize = 230;
pub const NOBJ: usize = 30;
#[cfg(all(not(feature = "bigfd"), not(feature = "bigq")))]
pub const NPK: usize = 14;
#[cfg(feature = "bigfd")]
pub const NPK: usize = 4;
#[cfg(feature = "bigq")]
pub const NPK: usize = 70;
#[cfg(not(feature = "bigq"))]
pub const QCAP: usize = 4;
#[cfg(feature = "bigq")]
pub const QCAP: usize = 70;
#[cfg(not(feature = "bigfd"))]
pub const PFD: usize = 6;
#[cfg(feature = "bigfd")]
pub const PFD: usize = 70;
pub const PKMAX: usize = 72;
/// descriptors in SCM_RIGHTS transit, over the whole run (bump-allocated)
#[cfg(not(feature = "bigfd"))]
pub const NINF: usize = 12;
#[cfg(feature = "bigfd")]
pub const NINF: usize = 140;
pub const NMAP: usize = 8;
/// closes over the whole run (event log) and descriptors per object
#[cfg(not(feature = "bigfd"))]
pub const NCL: usize = 56;
#[cfg(feature = "bigfd")]
pub const NCL: usize = 230;
#[cfg(not(feature = "bigfd"))]
pub const OFD: usize = 6;
#[cfg(feature = "bigfd")]
pub const OFD: usize = 140;
pub const FD0: usize = 3;

pub const K_NONE: u8 = 0;
pub const K_SOCK: u8 = 1;
pub const K_SHM: u8 = 2;
pub const K_EPOLL: u8 = 3;

/// What to do when a call would block for ever in the schedule under examination.
pub const BLOCK_ASSUME: u8 = 0; // "that schedule is not the one examined"
pub const BLOCK_FLAG: u8 = 1; // record it: the harness asserts it never happened

#[derive(Clone, Copy)]
pub struct Packet {
    pub len: usize,
    pub nfd: usize,
    pub inf0: usize, // first of `nfd` consecutive entries of the in-flight table
    pub hlen: usize, // 0, or 8: the packet starts with a header word kept here, not in PKDATA
    pub hdr: u64,
}
const PK0: Packet = Packet { len: 0, nfd: 0, inf0: 0, hlen: 0, hdr: 0 };
/// Packet payloads live in their own object: they are written through raw pointers with symbolic
/// contents, and CBMC then stops constant-propagating the *whole* object they are part of.
pub static mut PKDATA: [[u8; PKMAX]; NPK] = [[0; PKMAX]; NPK];

pub struct Kernel {
    pub nextfd: usize,
    pub nextobj: usize,
    pub nextpk: usize,
    pub fd_obj: [i16; NFD], // fd -> object id; -1 = closed or never opened
    pub fd_cloexec: [bool; NFD],
    pub fd_owner: [u8; NFD], // 0 = the process under test, 1 = "another process" (C12)
    pub kind: [u8; NOBJ],
    pub peer: [i16; NOBJ],
    // `fd_obj` is immutable once a descriptor exists; closing only sets `fd_closed[fd]`.  The crate
    // sometimes closes a descriptor whose number — and even whether the close happens — the symbolic
    // executor cannot constant-fold (an enum read back from the heap).  With this split such a close
    // leaves every table constant except one flag array, no counter changes, and a later use of a
    // descriptor forks once on "was it the one closed?" and goes on with constant indices.
    pub fd_closed: [bool; NFD],
    pub ofd: [[i16; OFD]; NOBJ], // descriptors ever created for an object
    pub nofd: [usize; NOBJ],
    pub shm_list: [i16; NMAP],
    pub nshm: usize,
    pub nonblock: [bool; NOBJ],
    pub qhead: [usize; NOBJ],
    pub qlen: [usize; NOBJ],
    pub q: [[u8; QCAP]; NOBJ],
    pub pk: [Packet; NPK],
    // in-flight table: descriptor references held by queued packets (rule 2)
    pub inf_live: [bool; NINF],
    pub inf_holder: [i16; NINF], // endpoint whose queue holds the packet
    pub inf_obj: [i16; NINF],
    pub ninf: usize,
    // shared memory objects
    pub shm_ptr: [*mut u8; NOBJ],
    pub shm_len: [usize; NOBJ],
    pub shm_maps: [u8; NOBJ],
    pub map_addr: [*mut u8; NMAP],
    pub map_obj: [i16; NMAP],
    pub map_len: [usize; NMAP],
    pub nmap: usize,
    pub nmapped: usize,  // mappings currently live
    // configuration / fault variables
    pub sndbuf: u32,
    pub block_mode: u8,
    pub enobufs_mask: u32, // bit i: i-th transmission attempt is refused with ENOBUFS
    pub crash_at: i32,     // index of the syscall at which process 0 dies (-1 = never)
    pub fail_fd_at: i32,   // index of the descriptor-creating call that fails with EMFILE (-1 = never)
    pub fail_connect: bool,
    // observations
    pub attempts: u32,
    pub syscalls: i32,
    pub fd_creates: i32,
    pub bad_close: bool,       // close() of a descriptor that is not open (double close / foreign fd)
    pub would_block: bool,     // a call reached "blocks for ever" in BLOCK_FLAG mode
    pub no_cloexec: bool,      // a descriptor was created without close-on-exec
    pub trunc_data: bool,      // a packet was truncated by a too-short read buffer
    pub trunc_ctl: bool,       // descriptors were discarded by a too-short control buffer
    pub bad_unmap: bool,       // munmap of something that is not a live mapping / wrong length
    pub depth_exceeded: bool,  // model bound: release cascade deeper than modelled
    pub last_poll_timeout: c_int,
    pub last_poll_events: i16,
    pub polls: u32,
    pub poll_verdict: u8, // 0: compute like poll(2) would with an immediate answer; 1: report time-out
}

pub static mut K: Kernel = Kernel {
    nextfd: FD0,
    nextobj: 0,
    nextpk: 0,
    fd_obj: [-1; NFD],
    fd_cloexec: [false; NFD],
    fd_owner: [0; NFD],
    kind: [0; NOBJ],
    peer: [-1; NOBJ],
    fd_closed: [false; NFD],
    ofd: [[-1; OFD]; NOBJ],
    nofd: [0; NOBJ],
    shm_list: [-1; NMAP],
    nshm: 0,
    nonblock: [false; NOBJ],
    qhead: [0; NOBJ],
    qlen: [0; NOBJ],
    q: [[0; QCAP]; NOBJ],
    pk: [PK0; NPK],
    inf_live: [false; NINF],
    inf_holder: [-1; NINF],
    inf_obj: [-1; NINF],
    ninf: 0,
    shm_ptr: [ptr::null_mut(); NOBJ],
    shm_len: [0; NOBJ],
    shm_maps: [0; NOBJ],
    map_addr: [ptr::null_mut(); NMAP],
    map_obj: [-1; NMAP],
    map_len: [0; NMAP],
    nmap: 0,
    nmapped: 0,
    sndbuf: 64,
    block_mode: BLOCK_ASSUME,
    enobufs_mask: 0,
    crash_at: -1,
    fail_fd_at: -1,
    fail_connect: false,
    attempts: 0,
    syscalls: 0,
    fd_creates: 0,
    bad_close: false,
    would_block: false,
    no_cloexec: false,
    trunc_data: false,
    trunc_ctl: false,
    bad_unmap: false,
    depth_exceeded: false,
    last_poll_timeout: 0,
    last_poll_events: 0,
    polls: 0,
    poll_verdict: 0,
};
static mut ERRNO: c_int = 0;
/// process whose system calls are currently being issued (0 = under test; C12 switches to 1)
pub static mut CUR: u8 = 0;

#[no_mangle]
pub unsafe extern "C" fn __errno_location() -> *mut c_int {
    &raw mut ERRNO
}

// ------------------------------------------------------------------------------------------------
// helpers

/// Every modelled system call passes through here: counts it and applies the crash variable.
/// Returns true if the calling process is dead (the call must fail without any effect).
unsafe fn dead() -> bool {
    if CUR != 0 {
        return false;
    }
    let i = K.syscalls;
    K.syscalls += 1;
    K.crash_at >= 0 && i >= K.crash_at
}
pub unsafe fn crashed() -> bool {
    K.crash_at >= 0 && K.syscalls > K.crash_at
}

/// descriptor numbers 0..2 are never handed out by the bump allocator; a harness can ask for the
/// next descriptor to get one of them (a process whose stdin is closed: "lowest free" is 0)
pub static mut FORCE_NEXT_FD: i32 = -1;
unsafe fn new_fd(obj: i16, cloexec: bool) -> c_int {
    kani::assume(K.nextfd < NFD); // model capacity (stated bound)
    let fd = if FORCE_NEXT_FD >= 0 {
        let f = FORCE_NEXT_FD as usize;
        FORCE_NEXT_FD = -1;
        assert!(f < FD0 && K.fd_obj[f] < 0); // only the reserved low numbers, each at most once
        f
    } else {
        let f = K.nextfd;
        K.nextfd += 1;
        f
    };
    K.fd_obj[fd] = obj;
    kani::assume(K.nofd[obj as usize] < OFD); // model capacity
    K.ofd[obj as usize][K.nofd[obj as usize]] = fd as i16;
    K.nofd[obj as usize] += 1;
    K.fd_cloexec[fd] = cloexec;
    K.fd_owner[fd] = CUR;
    if !cloexec {
        K.no_cloexec = true;
    }
    fd as c_int
}
/// applies the EMFILE fault variable; true = this descriptor-creating call must fail
unsafe fn fd_create_fails() -> bool {
    let i = K.fd_creates;
    K.fd_creates += 1;
    if K.fail_fd_at >= 0 && i == K.fail_fd_at {
        ERRNO = libc::EMFILE;
        return true;
    }
    false
}
unsafe fn new_obj(kind: u8) -> i16 {
    kani::assume(K.nextobj < NOBJ);
    let o = K.nextobj;
    K.nextobj += 1;
    K.kind[o] = kind;
    o as i16
}
/// object behind an OPEN descriptor, -1 otherwise
pub unsafe fn obj_of(fd: c_int) -> i16 {
    if fd < 0 || fd as usize >= NFD {
        return -1;
    }
    let o = K.fd_obj[fd as usize];
    if o < 0 {
        return -1;
    }
    if K.fd_closed[fd as usize] {
        return -1;
    }
    o
}
/// does any open descriptor refer to object `e`?
unsafe fn has_open_fd(e: usize) -> bool {
    let mut k = 0;
    let mut r = false;
    while k < K.nofd[e] {
        if !K.fd_closed[K.ofd[e][k] as usize] {
            r = true;
        }
        k += 1;
    }
    r
}
/// An object is alive while a descriptor refers to it, or while a descriptor to it travels in a
/// packet queued for an endpoint that is itself alive (rule 2).  Evaluated on demand — only where
/// the kernel really asks (EPIPE, end-of-stream, poll) — over the flat in-flight table, three
/// levels deep; a deeper chain sets `depth_exceeded` (=> inconclusive, never a pass).
pub unsafe fn alive(o: i16) -> bool {
    o >= 0 && alive_d::<0>(o as usize)
}
unsafe fn alive_d<const D: u8>(e: usize) -> bool {
    if has_open_fd(e) {
        return true;
    }
    if K.ninf == 0 {
        return false; // nothing was ever in transit
    }
    let mut k = 0;
    let mut r = false;
    while k < NINF {
        if k < K.ninf && K.inf_live[k] && K.inf_obj[k] as usize == e {
            let h = K.inf_holder[k] as usize;
            let ha = match D {
                0 => alive_d::<1>(h),
                1 => alive_d::<2>(h),
                _ => {
                    let a = has_open_fd(h);
                    if !a {
                        K.depth_exceeded = true;
                    }
                    a
                },
            };
            if ha {
                r = true;
            }
        }
        k += 1;
    }
    r
}
unsafe fn qslot(e: usize, i: usize) -> usize {
    (K.qhead[e] + i) % QCAP
}

/// after a descriptor or an in-flight reference went away: release shared-memory backing that
/// nothing refers to any more, and tell registered receiver sets about hang-ups.  Both sweeps run
/// over constant indices (the lists of shm objects / registrations), never over the closed
/// descriptor's possibly symbolic number.
unsafe fn after_release() {
    if K.nshm > 0 {
        let mut j = 0;
        while j < K.nshm {
            let e = K.shm_list[j] as usize;
            if !K.shm_ptr[e].is_null() && K.shm_maps[e] == 0 && !alive(e as i16) {
                free_shm(e);
            }
            j += 1;
        }
    }
    if EP.n > 0 {
        ep_rescan_hangups();
    }
}
unsafe fn free_shm(e: usize) {
    if !K.shm_ptr[e].is_null() {
        let lay = std::alloc::Layout::from_size_align_unchecked(K.shm_len[e], 1);
        std::alloc::dealloc(K.shm_ptr[e], lay);
        K.shm_ptr[e] = ptr::null_mut();
    }
}

// ------------------------------------------------------------------------------------------------
// sockets

#[no_mangle]
pub unsafe extern "C" fn socketpair(_d: c_int, t: c_int, _p: c_int, sv: *mut c_int) -> c_int {
    if dead() {
        ERRNO = libc::EINTR;
        return -1;
    }
    if fd_create_fails() {
        return -1;
    }
    let a = new_obj(K_SOCK);
    let b = new_obj(K_SOCK);
    K.peer[a as usize] = b;
    K.peer[b as usize] = a;
    let ce = t & libc::SOCK_CLOEXEC != 0;
    *sv = new_fd(a, ce);
    *sv.add(1) = new_fd(b, ce);
    0
}
#[no_mangle]
pub unsafe extern "C" fn getsockopt(fd: c_int, _l: c_int, n: c_int, v: *mut c_void, len: *mut socklen_t) -> c_int {
    assert!(n == libc::SO_SNDBUF);
    *(v as *mut u32) = K.sndbuf;
    *len = 4;
    0
}
#[no_mangle]
pub unsafe extern "C" fn setsockopt(fd: c_int, _l: c_int, _n: c_int, _v: *const c_void, _len: socklen_t) -> c_int {
    0
}
#[no_mangle]
pub unsafe extern "C" fn close(fd: c_int) -> c_int {
    // close is the one call that still "works" for a dead process (exit closes everything); it is
    // not counted as a crash point
    // the only state a close changes is one flag (see `fd_closed`); no counter, no branch before it
    let bad = obj_of(fd) < 0;
    K.bad_close |= bad;
    if !bad {
        K.fd_closed[fd as usize] = true;
        after_release();
        return 0;
    }
    ERRNO = libc::EBADF;
    -1
}
/// what process exit does: close every descriptor the process still owns
pub unsafe fn exit_process(owner: u8) {
    let mut fd = FD0;
    while fd < NFD {
        if fd < K.nextfd && K.fd_owner[fd] == owner {
            K.fd_closed[fd] = true;
        }
        fd += 1;
    }
    after_release();
}

unsafe fn enqueue(
    fd: c_int,
    hdr: *const u8,
    hlen: usize,
    buf: *const u8,
    blen: usize,
    fds: *const c_int,
    nfds: usize,
) -> ssize_t {
    if dead() {
        ERRNO = libc::EINTR;
        return -1;
    }
    let o = obj_of(fd);
    if o < 0 || K.kind[o as usize] != K_SOCK {
        ERRNO = libc::EBADF;
        return -1;
    }
    let p = K.peer[o as usize];
    if !alive(p) {
        ERRNO = libc::EPIPE;
        return -1;
    }
    if nfds > 253 {
        ERRNO = libc::EINVAL;
        return -1;
    }
    let total = hlen + blen;
    // Linux refuses a SEQPACKET datagram that cannot fit the send buffer (EMSGSIZE).
    if total + 32 > K.sndbuf as usize {
        ERRNO = libc::EMSGSIZE;
        return -1;
    }
    let att = K.attempts;
    K.attempts += 1;
    if att < 32 && (K.enobufs_mask >> att) & 1 == 1 {
        ERRNO = libc::ENOBUFS;
        return -1;
    }
    let p = p as usize;
    // model capacity (stated bounds)
    kani::assume(K.qlen[p] < QCAP && K.nextpk < NPK && total <= PKMAX && nfds <= PFD);
    let pk = K.nextpk;
    K.nextpk += 1;
    K.pk[pk].len = total;
    K.pk[pk].nfd = nfds;
    // The header word is kept beside the payload bytes so that it stays a constant for the
    // symbolic executor when the sender passed a constant (payload bytes are solver variables).
    assert!(hlen == 0 || hlen == 8);
    K.pk[pk].hlen = hlen;
    if hlen == 8 {
        K.pk[pk].hdr = ptr::read_unaligned(hdr as *const u64);
    }
    if blen > 0 {
        ptr::copy_nonoverlapping(buf, PKDATA[pk].as_mut_ptr(), blen);
    }
    // the real kernel validates every descriptor before queueing anything
    let mut i = 0;
    while i < PFD {
        if i < nfds && obj_of(*fds.add(i)) < 0 {
            ERRNO = libc::EBADF;
            return -1;
        }
        i += 1;
    }
    kani::assume(K.ninf + nfds <= NINF); // model capacity (stated bound)
    K.pk[pk].inf0 = K.ninf;
    let mut i = 0;
    while i < PFD {
        if i < nfds {
            let e = obj_of(*fds.add(i));
            let k = K.ninf;
            K.ninf += 1;
            K.inf_live[k] = true;
            K.inf_holder[k] = p as i16;
            K.inf_obj[k] = e;
        }
        i += 1;
    }
    let s = qslot(p, K.qlen[p]);
    K.q[p][s] = pk as u8;
    K.qlen[p] += 1;
    ep_notify(p as i16);
    total as ssize_t
}
#[no_mangle]
pub unsafe extern "C" fn sendmsg(fd: c_int, msg: *const msghdr, _flags: c_int) -> ssize_t {
    let m = &*msg;
    assert!(m.msg_iovlen == 2);
    let iv0 = *m.msg_iov;
    let iv1 = *m.msg_iov.add(1);
    let (fds, nfds) = if m.msg_controllen > 0 {
        let c = m.msg_control as *const libc::cmsghdr;
        // the kernel copies in the whole control buffer: msg_controllen bytes, padding included
        let _last: u8 = ptr::read_volatile((c as *const u8).add(m.msg_controllen as usize - 1));
        // well-formedness of the control message the crate built (part of C18's oracle)
        assert!(m.msg_controllen >= 16);
        assert!((*c).cmsg_level == libc::SOL_SOCKET && (*c).cmsg_type == libc::SCM_RIGHTS);
        assert!((*c).cmsg_len >= 16 && (*c).cmsg_len <= m.msg_controllen);
        assert!(((*c).cmsg_len - 16) % 4 == 0);
        ((c as *const u8).add(16) as *const c_int, ((*c).cmsg_len - 16) / 4)
    } else {
        (ptr::null(), 0)
    };
    enqueue(fd, iv0.iov_base as *const u8, iv0.iov_len, iv1.iov_base as *const u8, iv1.iov_len, fds, nfds)
}
#[no_mangle]
pub unsafe extern "C" fn send(fd: c_int, buf: *const c_void, len: size_t, _flags: c_int) -> ssize_t {
    enqueue(fd, ptr::null(), 0, buf as *const u8, len, ptr::null(), 0)
}

unsafe fn block() {
    if K.block_mode == BLOCK_FLAG {
        K.would_block = true;
        // reported here: the path ends below and could not be examined by the harness
        assert!(false, "BLOCKS_FOREVER: this call waits although nothing more can ever arrive");
    }
    // either way this path ends here: nothing will ever arrive in the examined schedule
    kani::assume(false);
}
/// packet id, or (-1, return value)
unsafe fn wait_packet(fd: c_int) -> (isize, ssize_t) {
    if dead() {
        ERRNO = libc::EINTR;
        return (-1, -1);
    }
    let o = obj_of(fd);
    if o < 0 || K.kind[o as usize] != K_SOCK {
        ERRNO = libc::EBADF;
        return (-1, -1);
    }
    let e = o as usize;
    if K.qlen[e] == 0 {
        if !alive(K.peer[e]) {
            return (-1, 0);
        }
        if K.nonblock[e] {
            ERRNO = libc::EAGAIN;
            return (-1, -1);
        }
        block();
    }
    let pk = K.q[e][K.qhead[e]] as usize;
    K.qhead[e] = (K.qhead[e] + 1) % QCAP;
    K.qlen[e] -= 1;
    (pk as isize, 0)
}
/// copy `n` bytes of packet `pk`'s content (header word, then payload) from logical offset `off`
unsafe fn copy_out(pk: usize, off: usize, dst: *mut u8, n: usize) {
    if n == 0 {
        return;
    }
    let hlen = K.pk[pk].hlen;
    if off == 0 && hlen == 8 && n >= 8 {
        // the common case: the header word goes out as one aligned-or-not word
        ptr::write_unaligned(dst as *mut u64, K.pk[pk].hdr);
        if n > 8 {
            ptr::copy_nonoverlapping(PKDATA[pk].as_ptr(), dst.add(8), n - 8);
        }
        return;
    }
    if off >= hlen {
        ptr::copy_nonoverlapping(PKDATA[pk].as_ptr().add(off - hlen), dst, n);
        return;
    }
    // a read that splits the header word: byte by byte (not used by the unmodified crate)
    let hb = K.pk[pk].hdr.to_le_bytes();
    let mut i = 0;
    while i < 8 {
        if off + i < hlen && i < n {
            *dst.add(i) = hb[off + i];
        }
        i += 1;
    }
    if off + n > hlen {
        ptr::copy_nonoverlapping(PKDATA[pk].as_ptr(), dst.add(hlen - off), off + n - hlen);
    }
}
#[no_mangle]
pub unsafe extern "C" fn recvmsg(fd: c_int, msg: *mut msghdr, flags: c_int) -> ssize_t {
    EOF_RECVS = 0; // a new receive starts: earlier end-of-stream results belong to other messages
    let (pk, r) = wait_packet(fd);
    if pk < 0 {
        return r;
    }
    let pk = pk as usize;
    let m = &mut *msg;
    assert!(m.msg_iovlen == 2);
    let iv0 = *m.msg_iov;
    let iv1 = *m.msg_iov.add(1);
    let len = K.pk[pk].len;
    let n0 = if len < iv0.iov_len { len } else { iv0.iov_len };
    copy_out(pk, 0, iv0.iov_base as *mut u8, n0);
    let rest = len - n0;
    let n1 = if rest < iv1.iov_len { rest } else { iv1.iov_len };
    copy_out(pk, n0, iv1.iov_base as *mut u8, n1);
    m.msg_flags = 0;
    if n0 + n1 < len {
        K.trunc_data = true;
        m.msg_flags |= libc::MSG_TRUNC;
    }
    let nfd = K.pk[pk].nfd;
    if nfd > 0 {
        let cap = if m.msg_controllen >= 16 { (m.msg_controllen - 16) / 4 } else { 0 };
        let k = if nfd < cap { nfd } else { cap };
        if k < nfd {
            K.trunc_ctl = true;
            m.msg_flags |= libc::MSG_CTRUNC;
        }
        let c = m.msg_control as *mut libc::cmsghdr;
        let out = (c as *mut u8).add(16) as *mut c_int;
        let mut i = 0;
        while i < PFD {
            if i < nfd {
                let x = K.pk[pk].inf0 + i;
                let o = K.inf_obj[x];
                K.inf_live[x] = false;
                if i < k {
                    // the in-flight reference becomes a descriptor
                    *out.add(i) = new_fd(o, flags & libc::MSG_CMSG_CLOEXEC != 0);
                } else {
                    after_release();
                }
            }
            i += 1;
        }
        if k > 0 {
            (*c).cmsg_len = 16 + 4 * k;
            (*c).cmsg_level = libc::SOL_SOCKET;
            (*c).cmsg_type = libc::SCM_RIGHTS;
            m.msg_controllen = 16 + ((4 * k + 7) & !7);
        } else {
            m.msg_controllen = 0;
        }
    } else {
        m.msg_controllen = 0;
    }
    (n0 + n1) as ssize_t
}
#[no_mangle]
pub unsafe extern "C" fn recv(fd: c_int, buf: *mut c_void, len: size_t, _flags: c_int) -> ssize_t {
    let (pk, r) = wait_packet(fd);
    if pk < 0 {
        if r == 0 {
            // End-of-stream is final.  A caller that answers it by reading again (and again) is waiting for
            // something that can never arrive: the third such read in a row is treated like a blocking wait.
            EOF_RECVS += 1;
            if EOF_RECVS >= 3 {
                block();
            }
        }
        return r;
    }
    EOF_RECVS = 0;
    let pk = pk as usize;
    let plen = K.pk[pk].len;
    let n = if plen < len { plen } else { len };
    if n < plen {
        K.trunc_data = true;
    }
    copy_out(pk, 0, buf as *mut u8, n);
    // descriptors attached to a packet read with plain recv() are discarded
    let mut i = 0;
    while i < PFD {
        if i < K.pk[pk].nfd {
            let x = K.pk[pk].inf0 + i;
            K.inf_live[x] = false;
            after_release();
        }
        i += 1;
    }
    n as ssize_t
}
#[no_mangle]
pub unsafe extern "C" fn fcntl(fd: c_int, cmd: c_int, arg: c_int) -> c_int {
    if dead() {
        ERRNO = libc::EINTR;
        return -1;
    }
    let o = obj_of(fd);
    if o < 0 {
        ERRNO = libc::EBADF;
        return -1;
    }
    if cmd == libc::F_SETFL {
        K.nonblock[o as usize] = arg & libc::O_NONBLOCK != 0;
        return 0;
    }
    if cmd == libc::F_DUPFD_CLOEXEC || cmd == libc::F_DUPFD {
        if fd_create_fails() {
            return -1;
        }
        return new_fd(o, cmd == libc::F_DUPFD_CLOEXEC);
    }
    if cmd == libc::F_GETFL {
        return if K.nonblock[o as usize] { libc::O_NONBLOCK } else { 0 };
    }
    assert!(false); // unmodelled fcntl command
    -1
}
#[no_mangle]
pub unsafe extern "C" fn fstat(fd: c_int, st: *mut libc::stat) -> c_int {
    let o = obj_of(fd);
    if o < 0 {
        ERRNO = libc::EBADF;
        return -1;
    }
    // only the two fields the crate reads are defined; the rest stays nondeterministic
    if K.kind[o as usize] == K_SOCK {
        (*st).st_mode = libc::S_IFSOCK | 0o777;
        (*st).st_size = 0;
    } else {
        (*st).st_mode = libc::S_IFREG | 0o600;
        (*st).st_size = K.shm_len[o as usize] as i64;
    }
    0
}
#[no_mangle]
pub unsafe extern "C" fn poll(fds: *mut libc::pollfd, n: libc::nfds_t, timeout: c_int) -> c_int {
    assert!(n == 1);
    K.polls += 1;
    K.last_poll_timeout = timeout;
    if POLL_EINTR_ONCE {
        // a signal handler ran in the waiting thread: poll(2) is never restarted
        POLL_EINTR_ONCE = false;
        ERRNO = libc::EINTR;
        return -1;
    }
    K.last_poll_events = (*fds).events;
    let o = obj_of((*fds).fd);
    if o < 0 {
        (*fds).revents = libc::POLLNVAL;
        return 1;
    }
    let e = o as usize;
    // readiness exactly as poll(2) reports it for the *requested* events
    let mut rev: i16 = 0;
    if K.qlen[e] > 0 {
        rev |= libc::POLLIN & (*fds).events;
    }
    if !alive(K.peer[e]) {
        rev |= libc::POLLHUP; // always reported
        rev |= (libc::POLLIN | libc::POLLRDHUP) & (*fds).events;
    }
    if rev != 0 && K.poll_verdict == 0 {
        (*fds).revents = rev;
        return 1;
    }
    if rev != 0 {
        // poll_verdict == 1 while something is ready: not a behaviour of poll(2)
        kani::assume(false);
    }
    // nothing ready: a finite wait times out; an infinite one blocks for ever
    if timeout < 0 {
        block();
    }
    (*fds).revents = 0;
    0
}

// ------------------------------------------------------------------------------------------------
// shared memory

#[no_mangle]
pub unsafe extern "C" fn shm_open(_n: *const c_char, _f: c_int, _m: mode_t) -> c_int {
    if fd_create_fails() {
        return -1;
    }
    let o = new_obj(K_SHM);
    kani::assume(K.nshm < NMAP); // model capacity
    K.shm_list[K.nshm] = o;
    K.nshm += 1;
    // glibc's shm_open adds O_CLOEXEC
    new_fd(o, true)
}
#[no_mangle]
pub unsafe extern "C" fn shm_unlink(_n: *const c_char) -> c_int {
    0
}
#[no_mangle]
pub unsafe extern "C" fn ftruncate(fd: c_int, len: off_t) -> c_int {
    let o = obj_of(fd);
    if o < 0 || K.kind[o as usize] != K_SHM || len < 0 {
        ERRNO = libc::EINVAL;
        return -1;
    }
    let o = o as usize;
    assert!(K.shm_ptr[o].is_null()); // the crate sizes a region once
    K.shm_len[o] = len as usize;
    if len > 0 {
        // exactly `len` bytes: any access past the region's length is a CBMC bounds violation
        let lay = std::alloc::Layout::from_size_align_unchecked(len as usize, 1);
        K.shm_ptr[o] = std::alloc::alloc_zeroed(lay);
    }
    0
}
#[no_mangle]
pub unsafe extern "C" fn mmap(_a: *mut c_void, len: size_t, prot: c_int, flags: c_int, fd: c_int, off: off_t) -> *mut c_void {
    let o = obj_of(fd);
    if o < 0 || K.kind[o as usize] != K_SHM || len == 0 {
        ERRNO = libc::EINVAL;
        return libc::MAP_FAILED;
    }
    let o = o as usize;
    assert!(flags & libc::MAP_SHARED != 0 && off == 0);
    // mapping beyond the end of the object: allowed by mmap(2) but SIGBUS on access; treat the
    // request itself as the violation so it is caught at its source
    assert!(len <= K.shm_len[o]);
    kani::assume(K.nmap < NMAP);
    let i = K.nmap;
    K.nmap += 1;
    K.map_addr[i] = K.shm_ptr[o];
    K.map_obj[i] = o as i16;
    K.map_len[i] = len;
    K.shm_maps[o] += 1;
    K.nmapped += 1;
    K.shm_ptr[o] as *mut c_void
}
#[no_mangle]
pub unsafe extern "C" fn munmap(a: *mut c_void, len: size_t) -> c_int {
    // mappings of one object alias (MAP_SHARED), so the address identifies the object, and any
    // live mapping record of that object with this length can be the one released
    let mut i = 0;
    while i < NMAP {
        if i < K.nmap && K.map_obj[i] >= 0 && K.map_addr[i] == a as *mut u8 && K.map_len[i] == len {
            let o = K.map_obj[i] as usize;
            K.map_obj[i] = -1;
            K.shm_maps[o] -= 1;
            K.nmapped -= 1;
            after_release();
            return 0;
        }
        i += 1;
    }
    K.bad_unmap = true;
    ERRNO = libc::EINVAL;
    -1
}
#[no_mangle]
pub unsafe extern "C" fn dup(fd: c_int) -> c_int {
    let o = obj_of(fd);
    if o < 0 {
        ERRNO = libc::EBADF;
        return -1;
    }
    if fd_create_fails() {
        return -1;
    }
    new_fd(o, false)
}
#[no_mangle]
pub unsafe extern "C" fn getpid() -> c_int {
    42
}
#[no_mangle]
pub unsafe extern "C" fn clock_gettime(_c: c_int, ts: *mut libc::timespec) -> c_int {
    (*ts).tv_sec = 1_700_000_000;
    (*ts).tv_nsec = 5;
    0
}

// ------------------------------------------------------------------------------------------------
// named sockets (only what OsIpcSender::connect touches; C11's error path)

#[no_mangle]
pub unsafe extern "C" fn socket(_d: c_int, t: c_int, _p: c_int) -> c_int {
    if fd_create_fails() {
        return -1;
    }
    let a = new_obj(K_SOCK);
    new_fd(a, t & libc::SOCK_CLOEXEC != 0)
}
#[no_mangle]
pub unsafe extern "C" fn connect(fd: c_int, _a: *const libc::sockaddr, _l: socklen_t) -> c_int {
    if fd < 0 {
        ERRNO = libc::EBADF;
        return -1;
    }
    // there is no listener in the model: connecting always fails the way a missing name does
    ERRNO = libc::ENOENT;
    -1
}
#[no_mangle]
pub unsafe extern "C" fn strncpy(dst: *mut c_char, src: *const c_char, n: size_t) -> *mut c_char {
    // the path is not observable through the model
    dst
}

// ------------------------------------------------------------------------------------------------
// epoll, edge-triggered as mio registers it (rule 7)

pub const NEP: usize = 4;
pub struct Epoll {
    pub reg_fd: [c_int; NEP],
    pub reg_obj: [i16; NEP],
    pub tok: [u64; NEP],
    pub pending: [bool; NEP],
    pub n: usize,
    pub eintr_at: i32, // index of the epoll_wait that is interrupted (-1 = never)
    pub waits: i32,
}
pub static mut EP: Epoll =
    Epoll { reg_fd: [-1; NEP], reg_obj: [-1; NEP], tok: [0; NEP], pending: [false; NEP], n: 0, eintr_at: -1, waits: 0 };

unsafe fn readable(o: i16) -> bool {
    K.qlen[o as usize] > 0 || !alive(K.peer[o as usize])
}
/// a packet was queued for / the peer of endpoint `o` died: edge → pending
unsafe fn ep_notify(o: i16) {
    if EP.n == 0 {
        return; // no receiver set in this harness
    }
    let mut i = 0;
    while i < NEP {
        if i < EP.n && EP.reg_obj[i] == o {
            EP.pending[i] = true;
        }
        i += 1;
    }
}
/// called by harnesses after an action that can make an endpoint's *peer* die
pub unsafe fn ep_rescan_hangups() {
    let mut i = 0;
    while i < NEP {
        if i < EP.n && EP.reg_obj[i] >= 0 && !alive(K.peer[EP.reg_obj[i] as usize]) {
            EP.pending[i] = true;
        }
        i += 1;
    }
}
#[no_mangle]
pub unsafe extern "C" fn epoll_create1(f: c_int) -> c_int {
    if fd_create_fails() {
        return -1;
    }
    let o = new_obj(K_EPOLL);
    new_fd(o, f & libc::EPOLL_CLOEXEC != 0)
}
#[no_mangle]
pub unsafe extern "C" fn epoll_ctl(_ep: c_int, op: c_int, fd: c_int, ev: *mut libc::epoll_event) -> c_int {
    let o = obj_of(fd);
    if o < 0 {
        ERRNO = libc::EBADF;
        return -1;
    }
    if op == libc::EPOLL_CTL_ADD {
        if EPCTL_ADD_FAILS_ONCE {
            // the per-user watch limit is reached (ENOSPC) / no memory: registration is refused
            EPCTL_ADD_FAILS_ONCE = false;
            ERRNO = libc::ENOSPC;
            return -1;
        }
        kani::assume(EP.n < NEP);
        let i = EP.n;
        EP.n += 1;
        EP.reg_fd[i] = fd;
        EP.reg_obj[i] = o;
        EP.tok[i] = (*ev).u64;
        // registration reports an already-readable descriptor once
        EP.pending[i] = readable(o);
        return 0;
    }
    if op == libc::EPOLL_CTL_DEL {
        let mut i = 0;
        let mut found = false;
        while i < NEP {
            if i < EP.n && EP.reg_fd[i] == fd && EP.reg_obj[i] >= 0 {
                EP.reg_obj[i] = -1;
                EP.reg_fd[i] = -1;
                EP.pending[i] = false;
                found = true;
            }
            i += 1;
        }
        if !found {
            ERRNO = libc::ENOENT;
            return -1;
        }
        return 0;
    }
    assert!(false);
    -1
}
/// true iff some registered endpoint has something the set has not been told about or has not
/// drained: used by the lost-wake-up assertion when epoll_wait would block
pub unsafe fn ep_any_undelivered() -> bool {
    let mut i = 0;
    let mut any = false;
    while i < NEP {
        if i < EP.n && EP.reg_obj[i] >= 0 && readable(EP.reg_obj[i]) {
            any = true;
        }
        i += 1;
    }
    any
}
pub static mut LOST_WAKEUP: bool = false;
pub static mut POLL_EINTR_ONCE: bool = false;
pub static mut EPCTL_ADD_FAILS_ONCE: bool = false;
/// consecutive end-of-stream results of plain recv() (the call the crate uses for follow-up fragments)
pub static mut EOF_RECVS: u8 = 0;
#[no_mangle]
pub unsafe extern "C" fn epoll_wait(_ep: c_int, evs: *mut libc::epoll_event, max: c_int, _to: c_int) -> c_int {
    let w = EP.waits;
    EP.waits += 1;
    if EP.eintr_at >= 0 && w == EP.eintr_at {
        ERRNO = libc::EINTR;
        return -1;
    }
    let mut n = 0;
    let mut i = 0;
    while i < NEP {
        if i < EP.n && EP.reg_obj[i] >= 0 && EP.pending[i] && n < max {
            let mut bits = libc::EPOLLIN as u32;
            if !alive(K.peer[EP.reg_obj[i] as usize]) {
                bits |= (libc::EPOLLHUP | libc::EPOLLRDHUP) as u32;
            }
            (*evs.add(n as usize)).events = bits;
            (*evs.add(n as usize)).u64 = EP.tok[i];
            EP.pending[i] = false;
            n += 1;
        }
        i += 1;
    }
    if n == 0 {
        // would block: with edge-triggered polling this is a lost wake-up iff something is
        // still readable on a registered endpoint
        if ep_any_undelivered() {
            LOST_WAKEUP = true;
        }
        block();
    }
    n
}


// ------------------------------------------------------------------------------------------------
// Traps.  Under -Z c-ffi a foreign function without a definition is NOT rejected: CBMC silently
// gives it a nondeterministic result (seen with fcntl).  Every system call the crate could make
// and this kernel does not model is therefore defined here as a failing assertion; the runner maps
// an "UNMODELLED" failure to "inconclusive".
macro_rules! trap {
    ($($name:ident ( $($t:ty),* ) -> $r:ty = $v:expr;)*) => {
        $(
            #[no_mangle]
            pub unsafe extern "C" fn $name($(_: $t),*) -> $r {
                assert!(false, concat!("UNMODELLED libc call: ", stringify!($name)));
                $v
            }
        )*
        pub fn link_traps() {
            $( core::hint::black_box($name as unsafe extern "C" fn($($t),*) -> $r); )*
        }
    };
}
trap! {
    bind(c_int, *const libc::sockaddr, socklen_t) -> c_int = -1;
    listen(c_int, c_int) -> c_int = -1;
    accept(c_int, *mut libc::sockaddr, *mut socklen_t) -> c_int = -1;
    accept4(c_int, *mut libc::sockaddr, *mut socklen_t, c_int) -> c_int = -1;
    sendto(c_int, *const c_void, size_t, c_int, *const libc::sockaddr, socklen_t) -> ssize_t = -1;
    recvfrom(c_int, *mut c_void, size_t, c_int, *mut libc::sockaddr, *mut socklen_t) -> ssize_t = -1;
    dup2(c_int, c_int) -> c_int = -1;
    dup3(c_int, c_int, c_int) -> c_int = -1;
    pipe(*mut c_int) -> c_int = -1;
    pipe2(*mut c_int, c_int) -> c_int = -1;
    eventfd(libc::c_uint, c_int) -> c_int = -1;
    shutdown(c_int, c_int) -> c_int = -1;
    memfd_create(*const c_char, libc::c_uint) -> c_int = -1;
    unlink(*const c_char) -> c_int = -1;
    rmdir(*const c_char) -> c_int = -1;
    mkdir(*const c_char, mode_t) -> c_int = -1;
}

// ------------------------------------------------------------------------------------------------
// linking and ledger

pub fn link() {
    link_traps();
    use core::hint::black_box as bb;
    bb(__errno_location as unsafe extern "C" fn() -> *mut c_int);
    bb(socketpair as unsafe extern "C" fn(c_int, c_int, c_int, *mut c_int) -> c_int);
    bb(getsockopt as unsafe extern "C" fn(c_int, c_int, c_int, *mut c_void, *mut socklen_t) -> c_int);
    bb(setsockopt as unsafe extern "C" fn(c_int, c_int, c_int, *const c_void, socklen_t) -> c_int);
    bb(close as unsafe extern "C" fn(c_int) -> c_int);
    bb(sendmsg as unsafe extern "C" fn(c_int, *const msghdr, c_int) -> ssize_t);
    bb(send as unsafe extern "C" fn(c_int, *const c_void, size_t, c_int) -> ssize_t);
    bb(recvmsg as unsafe extern "C" fn(c_int, *mut msghdr, c_int) -> ssize_t);
    bb(recv as unsafe extern "C" fn(c_int, *mut c_void, size_t, c_int) -> ssize_t);
    bb(fcntl as unsafe extern "C" fn(c_int, c_int, c_int) -> c_int);
    bb(fstat as unsafe extern "C" fn(c_int, *mut libc::stat) -> c_int);
    bb(poll as unsafe extern "C" fn(*mut libc::pollfd, libc::nfds_t, c_int) -> c_int);
    bb(shm_open as unsafe extern "C" fn(*const c_char, c_int, mode_t) -> c_int);
    bb(shm_unlink as unsafe extern "C" fn(*const c_char) -> c_int);
    bb(ftruncate as unsafe extern "C" fn(c_int, off_t) -> c_int);
    bb(mmap as unsafe extern "C" fn(*mut c_void, size_t, c_int, c_int, c_int, off_t) -> *mut c_void);
    bb(munmap as unsafe extern "C" fn(*mut c_void, size_t) -> c_int);
    bb(dup as unsafe extern "C" fn(c_int) -> c_int);
    bb(getpid as unsafe extern "C" fn() -> c_int);
    bb(clock_gettime as unsafe extern "C" fn(c_int, *mut libc::timespec) -> c_int);
    bb(socket as unsafe extern "C" fn(c_int, c_int, c_int) -> c_int);
    bb(connect as unsafe extern "C" fn(c_int, *const libc::sockaddr, socklen_t) -> c_int);
    bb(strncpy as unsafe extern "C" fn(*mut c_char, *const c_char, size_t) -> *mut c_char);
    bb(epoll_create1 as unsafe extern "C" fn(c_int) -> c_int);
    bb(epoll_ctl as unsafe extern "C" fn(c_int, c_int, c_int, *mut libc::epoll_event) -> c_int);
    bb(epoll_wait as unsafe extern "C" fn(c_int, *mut libc::epoll_event, c_int, c_int) -> c_int);
}

pub unsafe fn open_fds() -> usize {
    let mut n = 0;
    let mut f = 0;
    while f < K.nextfd {
        if K.fd_obj[f] >= 0 && !K.fd_closed[f] {
            n += 1;
        }
        f += 1;
    }
    n
}
pub unsafe fn live_maps() -> usize {
    K.nmapped
}
/// C11's oracle, attached to the end of every harness: nothing open, nothing mapped, no close of
/// a descriptor that was not open, every descriptor was close-on-exec, model bounds respected.
pub unsafe fn ledger_balanced() -> bool {
    open_fds() == 0 && live_maps() == 0 && !K.bad_close && !K.bad_unmap && !K.depth_exceeded
}

// ------------------------------------------------------------------------------------------------
// The environment API harnesses are written against.  `kn.rs` implements the same functions over
// the real kernel, so that a harness replays natively with the solver's values (DESIGN §4.4).

pub const IS_MODEL: bool = true;
pub fn reset() {}
pub fn set_sndbuf(v: u32) {
    unsafe { K.sndbuf = v }
}
pub fn set_enobufs_mask(m: u32) {
    unsafe {
        K.enobufs_mask = m;
        K.attempts = 0;
    }
}
pub fn set_crash_at(i: i32) {
    unsafe {
        K.crash_at = i;
        K.syscalls = 0;
    }
}
pub fn has_crashed() -> bool {
    unsafe { crashed() }
}
pub fn set_fail_fd_at(i: i32) {
    unsafe {
        K.fail_fd_at = i;
        K.fd_creates = 0;
    }
}
pub fn set_block_is_violation(b: bool) {
    unsafe { K.block_mode = if b { BLOCK_FLAG } else { BLOCK_ASSUME } }
}
pub fn next_fd_is(n: c_int) {
    unsafe { FORCE_NEXT_FD = n }
}
pub fn set_cur(p: u8) {
    unsafe { CUR = p }
}
pub fn exit_proc(owner: u8) {
    unsafe { exit_process(owner) }
}
pub fn set_poll_times_out(b: bool) {
    unsafe { K.poll_verdict = if b { 1 } else { 0 } }
}
/// the next epoll_ctl(ADD) fails with ENOSPC
pub fn set_epoll_add_fails_once(b: bool) {
    unsafe { EPCTL_ADD_FAILS_ONCE = b }
}
/// the next poll(2) is interrupted by a signal (EINTR)
pub fn set_poll_eintr_once(b: bool) {
    unsafe { POLL_EINTR_ONCE = b }
}
pub fn errno() -> c_int {
    unsafe { ERRNO }
}
pub fn set_eintr_at(i: i32) {
    unsafe {
        EP.eintr_at = i;
        EP.waits = 0;
    }
}
/// identity of the kernel object behind a descriptor (-1: not open)
pub fn object_of(fd: c_int) -> i64 {
    unsafe { obj_of(fd) as i64 }
}
pub fn nopen() -> usize {
    unsafe { open_fds() }
}
pub fn is_open(fd: c_int) -> bool {
    unsafe { obj_of(fd) >= 0 }
}
pub fn nmapped() -> usize {
    unsafe { K.nmapped }
}
pub fn bad_close() -> bool {
    unsafe { K.bad_close }
}
pub fn bad_unmap() -> bool {
    unsafe { K.bad_unmap }
}
pub fn no_cloexec() -> bool {
    unsafe { K.no_cloexec }
}
pub fn trunc_data() -> bool {
    unsafe { K.trunc_data }
}
pub fn trunc_ctl() -> bool {
    unsafe { K.trunc_ctl }
}
pub fn model_bound_exceeded() -> bool {
    unsafe { K.depth_exceeded }
}
pub fn lost_wakeup() -> bool {
    unsafe { LOST_WAKEUP }
}
pub fn attempts() -> u32 {
    unsafe { K.attempts }
}
pub fn syscalls() -> i32 {
    unsafe { K.syscalls }
}
pub fn polls() -> u32 {
    unsafe { K.polls }
}
pub fn last_poll_timeout() -> c_int {
    unsafe { K.last_poll_timeout }
}
pub fn is_nonblocking(fd: c_int) -> bool {
    unsafe {
        let o = obj_of(fd);
        o >= 0 && K.nonblock[o as usize]
    }
}
pub fn ledger_ok() -> bool {
    unsafe { ledger_balanced() }
}
