//! Shared helpers for harnesses over the queueing environment (model or native).
use crate::env;
use ipc_channel::ipc::{self, IpcReceiver, IpcSender};
use ipc_channel::platform::{self, verif_hooks as ph, OsIpcReceiver, OsIpcSender, OsOpaqueIpcChannel};
use libc::c_int;

/// `format!` reaches float formatting through `dyn Display`; error messages and the shm name are
/// not observable through the model, so formatting returns an empty string (listed in evidence).
pub fn fmt_stub(_a: core::fmt::Arguments<'_>) -> String {
    String::new()
}

/// queueing environments only
pub fn setup(sndbuf: u32) {
    env::link();
    env::set_sndbuf(sndbuf);
    // force the lazy SYSTEM_SENDBUF_SIZE now (it creates and drops a socket pair)
    let _ = OsIpcSender::get_max_fragment_size();
}

/// a raw connected socket pair straight from the environment (not through the crate)
pub fn raw_pair() -> (c_int, c_int) {
    let mut sv = [0 as c_int; 2];
    let r = unsafe { libc::socketpair(libc::AF_UNIX, libc::SOCK_SEQPACKET | libc::SOCK_CLOEXEC, 0, sv.as_mut_ptr()) };
    assert!(r == 0);
    (sv[0], sv[1])
}
pub fn obj(fd: c_int) -> i64 {
    env::object_of(fd)
}
pub fn sender_obj<T>(s: &IpcSender<T>) -> i64 {
    obj(ph::sender_fd(ipc::verif_hooks::sender_os(s)))
}
pub fn receiver_obj<T>(r: &IpcReceiver<T>) -> i64 {
    obj(ph::receiver_fd(ipc::verif_hooks::receiver_os(r)))
}
pub fn raw_close(fd: c_int) {
    let r = unsafe { libc::close(fd) };
    assert!(r == 0);
}

/// `kani::any()` constrained to lo..=hi.  Under Kani: any + assume.  Natively: the replayed value
/// (checked), or in random mode a draw from the range that favours its ends.
macro_rules! any_in_impl {
    ($name:ident, $t:ty) => {
        pub fn $name(lo: $t, hi: $t) -> $t {
            #[cfg(not(kani))]
            {
                if crate::nk::is_random() {
                    let r = crate::nk::rnd64();
                    let span = (hi - lo) as u64;
                    let pick = r % 8;
                    let off = if span == 0 {
                        0
                    } else if pick == 0 {
                        0
                    } else if pick == 1 {
                        span
                    } else if pick == 2 {
                        (r >> 8) % core::cmp::min(span + 1, 17)
                    } else if pick == 3 {
                        span - (r >> 8) % core::cmp::min(span + 1, 17)
                    } else {
                        // uniform bit length
                        let bits = 64 - span.leading_zeros() as u64;
                        let k = (r >> 8) % (bits + 1);
                        let v = if k == 0 { 0 } else { ((r >> 16) | (1 << 63)) >> (64 - k) };
                        v % (span + 1)
                    };
                    return lo + off as $t;
                }
            }
            let v: $t = crate::kani::any();
            crate::kani::assume(v >= lo && v <= hi);
            v
        }
    };
}
any_in_impl!(any_usize_in, usize);
any_in_impl!(any_u32_in, u32);
any_in_impl!(any_u8_in, u8);
any_in_impl!(any_i32_in, i32);

// ---- raw injection: the harness plays "the other process" with plain system calls, so that the
// ---- descriptors a packet carries are constants for the symbolic executor (values that pass
// ---- through a heap-allocated enum such as Vec<OsIpcChannel> are not: Kani/CBMC cannot
// ---- constant-fold enum reads from dynamic objects)

/// one packet as the crate's sender would put it on the wire: optional header word, payload,
/// descriptors (SCM_RIGHTS)
pub fn inject(fd: c_int, header: Option<usize>, payload: &[u8], fds: &[c_int]) -> isize {
    unsafe {
        let mut hdr = header.unwrap_or(0);
        let mut iov = [
            libc::iovec { iov_base: &mut hdr as *mut usize as *mut libc::c_void, iov_len: 8 },
            libc::iovec { iov_base: payload.as_ptr() as *mut libc::c_void, iov_len: payload.len() },
        ];
        if header.is_none() {
            return libc::send(fd, payload.as_ptr() as *const libc::c_void, payload.len(), 0);
        }
        // control buffer on the stack: 16-byte header + up to 70 descriptors
        let mut ctl = [0u64; 2 + 35];
        let mut m: libc::msghdr = core::mem::zeroed();
        m.msg_iov = iov.as_mut_ptr();
        m.msg_iovlen = 2;
        if !fds.is_empty() {
            let c = ctl.as_mut_ptr() as *mut libc::cmsghdr;
            (*c).cmsg_len = 16 + 4 * fds.len();
            (*c).cmsg_level = libc::SOL_SOCKET;
            (*c).cmsg_type = libc::SCM_RIGHTS;
            let p = (c as *mut u8).add(16) as *mut c_int;
            let mut i = 0;
            while i < fds.len() {
                *p.add(i) = fds[i];
                i += 1;
            }
            m.msg_control = c as *mut libc::c_void;
            m.msg_controllen = 16 + ((4 * fds.len() + 7) & !7);
        }
        libc::sendmsg(fd, &m, 0)
    }
}
pub fn rx_from_fd(fd: c_int) -> OsIpcReceiver {
    ph::opaque_from_fd(fd).to_receiver()
}
pub fn tx_from_fd(fd: c_int) -> OsIpcSender {
    ph::opaque_from_fd(fd).to_sender()
}
