//! C09 — sending to a vanished receiver fails cleanly; a receiver in transit still counts.
//! Target channel T, carrier channel C.  Scenario and message shape are concrete per harness,
//! payload bytes symbolic.
use crate::env;
use crate::util::*;
use crate::harnesses;
#[cfg(not(kani))]
use crate::kani;
use ipc_channel::ipc;
use ipc_channel::platform::{self, verif_hooks as ph, OsIpcChannel};

fn end_ledger() {
    assert!(env::nopen() == 0, "C11: descriptor left open (an attachment of a failed send must not leak)");
    assert!(!env::bad_close(), "C11: close of a descriptor that was not open");
    assert!(!env::model_bound_exceeded(), "MODEL-BOUND");
    crate::reach_end!();
}

#[derive(Clone, Copy, PartialEq)]
enum Sc {
    Dropped,         // (a) T's receiver dropped
    InTransit,       // (b) T's receiver queued inside a message on C
    TransitDropped,  // (c) as (b), then C's receiver dropped with the message still queued
    TransitReceived, // (d) as (b), then unpacked and kept
}

fn scenario<const L: usize>(sc: Sc, attach: bool) {
    setup(64);
    env::set_block_is_violation(true);
    let (t_tx, t_rx) = platform::channel().unwrap();
    let (c_tx, c_rx) = platform::channel().unwrap();
    let (x_tx, x_rx) = platform::channel().unwrap(); // the attachment, if any
    let mut unpacked = None;
    let mut c_rx = Some(c_rx);
    match sc {
        Sc::Dropped => drop(t_rx),
        _ => {
            c_tx.send(&[7u8], vec![OsIpcChannel::Receiver(t_rx)], vec![]).unwrap();
            if sc == Sc::TransitDropped {
                drop(c_rx.take());
            }
            if sc == Sc::TransitReceived {
                let (_d, mut ch, _r) = c_rx.as_ref().unwrap().recv().unwrap();
                assert!(ch.len() == 1);
                unpacked = Some(ch.pop().unwrap().to_receiver());
            }
        },
    }
    let data: [u8; L] = kani::any();
    let chans = if attach { vec![OsIpcChannel::Sender(x_tx.clone())] } else { vec![] };
    let r = t_tx.send(&data[..], chans, vec![]);
    match sc {
        Sc::Dropped | Sc::TransitDropped => {
            assert!(r.is_err(), "C09: send to a receiver that exists nowhere reported success");
        },
        Sc::InTransit | Sc::TransitReceived => {
            assert!(r.is_ok(), "C09: send to a receiver that is only in transit failed");
            let rx = match unpacked.take() {
                Some(rx) => rx,
                None => {
                    let (_d, mut ch, _r) = c_rx.as_ref().unwrap().recv().unwrap();
                    assert!(ch.len() == 1);
                    ch.pop().unwrap().to_receiver()
                },
            };
            let (got, mut gch, _greg) = rx.recv().unwrap();
            assert!(got.len() == L, "C09: message sent while the receiver was in transit arrives whole");
            if L > 0 {
                let i = any_usize_in(0, L - 1);
                assert!(got[i] == data[i], "C09: bytes differ");
            }
            assert!(gch.len() == if attach { 1 } else { 0 }, "C09: attachment count");
            if attach {
                let s = gch.pop().unwrap().to_sender();
                assert!(obj(ph::sender_fd(&s)) == obj(ph::sender_fd(&x_tx)), "C04: attachment identity");
            }
        },
    }
    core::mem::forget(r);
    drop((t_tx, c_tx, c_rx, x_tx, x_rx, unpacked));
    end_ledger();
}

harnesses! {
    #[unwind(6)] fn gone_dropped_small() { scenario::<3>(Sc::Dropped, false) }
    #[unwind(6)] fn gone_dropped_small_att() { scenario::<3>(Sc::Dropped, true) }
    #[unwind(6)] fn gone_dropped_multi_att() { scenario::<57>(Sc::Dropped, true) }
    #[unwind(6)] fn gone_transit_small() { scenario::<3>(Sc::InTransit, false) }
    #[unwind(6)] fn gone_transit_multi_att() { scenario::<57>(Sc::InTransit, true) }
    #[unwind(6)] fn gone_transit_dropped_small() { scenario::<3>(Sc::TransitDropped, false) }
    #[unwind(6)] fn gone_transit_dropped_multi_att() { scenario::<57>(Sc::TransitDropped, true) }
    #[unwind(6)] fn gone_transit_received_small_att() { scenario::<3>(Sc::TransitReceived, true) }
    #[unwind(6)] fn gone_transit_received_multi() { scenario::<57>(Sc::TransitReceived, false) }
    // the same at the ipc level: the error propagates
    #[unwind(8)] fn gone_ipc_dropped() {
        setup(64);
        env::set_block_is_violation(true);
        let (tx, rx) = ipc::channel::<u32>().unwrap();
        drop(rx);
        let v: u32 = kani::any();
        let r = tx.send(v);
        assert!(r.is_err(), "C09: IpcSender::send to a dropped receiver reported success");
        core::mem::forget(r);
        let (btx, brx) = ipc::bytes_channel().unwrap();
        drop(brx);
        let r2 = btx.send(&[1, 2, 3]);
        assert!(r2.is_err(), "C09: IpcBytesSender::send to a dropped receiver reported success");
        core::mem::forget(r2);
        drop((tx, btx));
        end_ledger();
    }
}
