//! C14 — a failed or nested send leaves no trace in later or enclosing messages.
//! The real `IpcSender::send` (bincode + the Serialize impls of the endpoint types + the per-thread
//! side tables) over the recording kernel: every transmission is logged with its descriptor list
//! and the first payload bytes (where the attachment indices are written).
use crate::env;
use crate::util::*;
use crate::harnesses;
#[cfg(not(kani))]
use crate::kani;
use ipc_channel::ipc::{self, IpcSender, IpcSharedMemory};
use ipc_channel::platform::verif_hooks as ph;
use serde::ser::{Error as _, SerializeTuple};
use serde::{Deserialize, Deserializer, Serialize, Serializer};

fn fd_of(s: &IpcSender<u8>) -> libc::c_int {
    ph::sender_fd(ipc::verif_hooks::sender_os(s))
}
fn start() {
    env::link();
    env::set_sndbuf(4096);
    env::set_record_only(true);
    env::set_snapshot_payload(true);
    let _ = ipc_channel::platform::OsIpcSender::get_max_fragment_size();
}
fn le64(p: &[u8], off: usize) -> u64 {
    let mut b = [0u8; 8];
    b.copy_from_slice(&p[off..off + 8]);
    u64::from_le_bytes(b)
}

/// serialises `visit` of its three embedded endpoints (sender, region, sender), then fails
struct FailAfter {
    a: IpcSender<u8>,
    r: IpcSharedMemory,
    b: IpcSender<u8>,
    visit: usize,
}
impl Serialize for FailAfter {
    fn serialize<S: Serializer>(&self, s: S) -> Result<S::Ok, S::Error> {
        let mut t = s.serialize_tuple(3)?;
        if self.visit >= 1 {
            t.serialize_element(&self.a)?;
        }
        if self.visit >= 2 {
            t.serialize_element(&self.r)?;
        }
        if self.visit >= 3 {
            t.serialize_element(&self.b)?;
        }
        Err(S::Error::custom("serialisation refused"))
    }
}
impl<'de> Deserialize<'de> for FailAfter {
    fn deserialize<D: Deserializer<'de>>(_d: D) -> Result<Self, D::Error> {
        unimplemented!()
    }
}

fn ser_fail(visit: usize) {
    start();
    let (tx, rx) = ipc::channel::<FailAfter>().unwrap();
    let (a_tx, a_rx) = ipc::channel::<u8>().unwrap();
    let (b_tx, b_rx) = ipc::channel::<u8>().unwrap();
    let (fa, fb) = (fd_of(&a_tx), fd_of(&b_tx));
    let region = IpcSharedMemory::from_bytes(&[1u8, 2, 3]);
    let r = tx.send(FailAfter { a: a_tx.clone(), r: region.clone(), b: b_tx.clone(), visit });
    assert!(r.is_err(), "the value's serialisation reports an error");
    core::mem::forget(r);
    assert!(env::att_count() == 0, "C14: a failed send must not transmit anything");
    // "endpoints and regions embedded in the value are not retained by the library": nothing may be
    // parked in this thread's side tables ...
    assert!(ipc::verif_hooks::serialization_tables_len() == (0, 0), "C14: attachments of a failed send are retained by the library");
    // ... so their channels disconnect as soon as the program's own handles are gone
    drop(a_tx);
    drop(b_tx);
    drop(region);
    assert!(!env::is_open(fa) && !env::is_open(fb), "C14: sender of a failed send kept open after the program dropped its handles");
    assert!(env::nmapped() == 0, "C14: region of a failed send kept mapped");
    // later messages from this thread carry exactly their own attachments
    let (c_tx, c_rx) = ipc::channel::<u8>().unwrap();
    let (tx2, rx2) = ipc::channel::<(u8, IpcSender<u8>)>().unwrap();
    env::set_enobufs_mask(0);
    let v: u8 = kani::any();
    tx2.send((v, c_tx.clone())).unwrap();
    assert!(env::att_count() == 1, "one transmission");
    let a = env::att(0);
    let a_pay = env::att_pay(0);
    assert!(a.ok && a.nfds == 1 && a.fds[0] == fd_of(&c_tx), "C14: a later message carries other attachments than its own");
    assert!(a.len == 9 && a_pay[0] == v && le64(&a_pay, 1) == 0, "C14: attachment index of a later message");
    drop((tx, rx, a_rx, b_rx, c_tx, c_rx, tx2, rx2));
    assert!(env::nopen() == 0 && !env::bad_close(), "C11/C14: descriptors left after everything was dropped");
    crate::reach_end!();
}

/// a value whose serialisation performs a complete send of its own (of `inner`, with an
/// attachment) on another channel, between two of the enclosing value's attachments
struct Nested {
    via: IpcSender<Inner>,
    payload: IpcSender<u8>,
    inner_fails: bool,
    os_refuses: bool, // the nested send serialises fine but its transmission is refused (ENOBUFS on a small packet)
}
struct Inner {
    s: IpcSender<u8>,
    fail: bool,
}
impl Serialize for Inner {
    fn serialize<S: Serializer>(&self, s: S) -> Result<S::Ok, S::Error> {
        let mut t = s.serialize_tuple(2)?;
        t.serialize_element(&self.s)?;
        if self.fail {
            return Err(S::Error::custom("inner serialisation refused"));
        }
        t.serialize_element(&0xEEu8)?;
        t.end()
    }
}
impl<'de> Deserialize<'de> for Inner {
    fn deserialize<D: Deserializer<'de>>(_d: D) -> Result<Self, D::Error> {
        unimplemented!()
    }
}
impl Serialize for Nested {
    fn serialize<S: Serializer>(&self, s: S) -> Result<S::Ok, S::Error> {
        let r = self.via.send(Inner { s: self.payload.clone(), fail: self.inner_fails });
        assert!(r.is_err() == (self.inner_fails || self.os_refuses));
        core::mem::forget(r);
        0x77u8.serialize(s)
    }
}
impl<'de> Deserialize<'de> for Nested {
    fn deserialize<D: Deserializer<'de>>(_d: D) -> Result<Self, D::Error> {
        unimplemented!()
    }
}

fn ser_nested(inner_fails: bool, os_refuses: bool) {
    start();
    let (tx, rx) = ipc::channel::<(IpcSender<u8>, Nested, IpcSender<u8>)>().unwrap();
    let (via_tx, via_rx) = ipc::channel::<Inner>().unwrap();
    let (a_tx, a_rx) = ipc::channel::<u8>().unwrap();
    let (b_tx, b_rx) = ipc::channel::<u8>().unwrap();
    let (c_tx, c_rx) = ipc::channel::<u8>().unwrap();
    env::set_enobufs_mask(if os_refuses { 1 } else { 0 });
    tx.send((a_tx.clone(), Nested { via: via_tx.clone(), payload: c_tx.clone(), inner_fails, os_refuses }, b_tx.clone())).unwrap();
    let n = env::att_count();
    assert!(n == if inner_fails { 1 } else { 2 }, "number of transmissions");
    if os_refuses {
        assert!(!env::att(0).ok, "the nested transmission was refused");
    }
    if !inner_fails && !os_refuses {
        let i = env::att(0);
        let i_pay = env::att_pay(0);
        assert!(i.ok && i.nfds == 1 && i.fds[0] == fd_of(&c_tx), "C14: the nested message does not carry exactly its own attachment");
        assert!(i.len == 9 && le64(&i_pay, 0) == 0 && i_pay[8] == 0xEE, "C14: nested message payload / index");
    }
    let o = env::att(n - 1);
    let o_pay = env::att_pay(n - 1);
    assert!(o.ok && o.nfds == 2, "C14: the enclosing message does not carry exactly its own two attachments");
    assert!(o.fds[0] == fd_of(&a_tx) && o.fds[1] == fd_of(&b_tx), "C14: attachments of the enclosing message replaced or reordered by the nested send");
    assert!(o.len == 17 && le64(&o_pay, 0) == 0 && o_pay[8] == 0x77 && le64(&o_pay, 9) == 1, "C14: attachment indices of the enclosing message");
    assert!(ipc::verif_hooks::serialization_tables_len() == (0, 0), "C14: side tables not empty after the sends");
    drop((tx, rx, via_tx, via_rx, a_tx, a_rx, b_tx, b_rx, c_tx, c_rx));
    assert!(env::nopen() == 0 && !env::bad_close(), "C11/C14: descriptors left after everything was dropped");
    crate::reach_end!();
}

/// the same with shared-memory regions around the nested send (the region side table is saved and
/// restored separately from the channel one)
fn ser_nested_regions(inner_fails: bool, os_refuses: bool) {
    start();
    let (tx, rx) = ipc::channel::<(IpcSharedMemory, Nested, IpcSharedMemory)>().unwrap();
    let (via_tx, via_rx) = ipc::channel::<Inner>().unwrap();
    let (c_tx, c_rx) = ipc::channel::<u8>().unwrap();
    let ra = IpcSharedMemory::from_bytes(&[1u8]);
    let rb = IpcSharedMemory::from_bytes(&[2u8, 2]);
    env::set_enobufs_mask(if os_refuses { 1 } else { 0 });
    tx.send((ra.clone(), Nested { via: via_tx.clone(), payload: c_tx.clone(), inner_fails, os_refuses }, rb.clone())).unwrap();
    let n = env::att_count();
    assert!(n == if inner_fails { 1 } else { 2 }, "number of transmissions");
    if os_refuses {
        assert!(!env::att(0).ok, "the nested transmission was refused");
    }
    if !inner_fails && !os_refuses {
        let i = env::att(0);
        assert!(i.ok && i.nfds == 1 && i.fds[0] == fd_of(&c_tx), "C14: the nested message does not carry exactly its own attachment");
    }
    let o = env::att(n - 1);
    let o_pay = env::att_pay(n - 1);
    assert!(o.ok && o.nfds == 2, "C14/C05: the enclosing message does not carry exactly its own two regions");
    assert!(o.len == 17 && le64(&o_pay, 0) == 0 && o_pay[8] == 0x77 && le64(&o_pay, 9) == 1, "C14/C05: region indices of the enclosing message");
    assert!(ipc::verif_hooks::serialization_tables_len() == (0, 0), "C14: side tables not empty after the sends");
    drop((tx, rx, via_tx, via_rx, c_tx, c_rx, ra, rb));
    assert!(env::nopen() == 0 && env::nmapped() == 0 && !env::bad_close(), "C11/C14: descriptors or mappings left after everything was dropped");
    crate::reach_end!();
}

/// C04 (serialising side): endpoints and regions interleaved in one value — every embedded object is
/// numbered within ITS OWN kind, in value order, and the descriptors go out channels first, in that order
fn ser_mixed() {
    start();
    let (tx, rx) = ipc::channel::<(IpcSender<u8>, IpcSharedMemory, IpcSender<u8>, IpcSharedMemory)>().unwrap();
    let (a_tx, a_rx) = ipc::channel::<u8>().unwrap();
    let (b_tx, b_rx) = ipc::channel::<u8>().unwrap();
    let ra = IpcSharedMemory::from_bytes(&[1u8]);
    let rb = IpcSharedMemory::from_bytes(&[2u8, 2]);
    env::set_enobufs_mask(0);
    tx.send((a_tx.clone(), ra.clone(), b_tx.clone(), rb.clone())).unwrap();
    assert!(env::att_count() == 1, "number of transmissions");
    let o = env::att(0);
    let pay = env::att_pay(0);
    assert!(o.ok && o.nfds == 4, "C04: the message does not carry exactly its two channels and two regions");
    assert!(o.fds[0] == fd_of(&a_tx) && o.fds[1] == fd_of(&b_tx), "C04: channels not first / not in value order");
    assert!(o.len == 32, "payload = four indices");
    assert!(le64(&pay, 0) == 0 && le64(&pay, 16) == 1, "C04: channel indices do not count channels in value order");
    assert!(le64(&pay, 8) == 0 && le64(&pay, 24) == 1, "C04/C05: region indices do not count regions in value order");
    assert!(ipc::verif_hooks::serialization_tables_len() == (0, 0), "C14: side tables not empty after the send");
    drop((tx, rx, a_tx, a_rx, b_tx, b_rx, ra, rb));
    assert!(env::nopen() == 0 && env::nmapped() == 0 && !env::bad_close(), "C11: descriptors or mappings left after everything was dropped");
    crate::reach_end!();
}

/// C03/C04/C09 (serialising side): RECEIVING ends embedded in a value (typed, and opaque ones made with
/// `to_opaque`) travel as descriptors in value order next to a sender, and are MOVED: once `send` has
/// returned, this process holds no copy of them, while the caller's sender handle is untouched.
fn ser_receivers() {
    use ipc_channel::ipc::{IpcReceiver, OpaqueIpcReceiver, OpaqueIpcSender};
    start();
    let (tx, rx) = ipc::channel::<(IpcReceiver<u8>, OpaqueIpcSender, OpaqueIpcReceiver)>().unwrap();
    let (a_tx, a_rx) = ipc::channel::<u8>().unwrap();
    let (b_tx, b_rx) = ipc::channel::<u8>().unwrap();
    let (c_tx, c_rx) = ipc::channel::<u8>().unwrap();
    let a_fd = ph::receiver_fd(ipc::verif_hooks::receiver_os(&a_rx));
    let c_fd = ph::receiver_fd(ipc::verif_hooks::receiver_os(&c_rx));
    env::set_enobufs_mask(0);
    tx.send((a_rx, b_tx.clone().to_opaque(), c_rx.to_opaque())).unwrap();
    assert!(env::att_count() == 1, "number of transmissions");
    let o = env::att(0);
    let pay = env::att_pay(0);
    assert!(o.ok && o.nfds == 3, "C04: the message does not carry exactly its three endpoints");
    assert!(o.fds[0] == a_fd && o.fds[1] == fd_of(&b_tx) && o.fds[2] == c_fd, "C04: endpoints not in value order");
    assert!(o.len == 24 && le64(&pay, 0) == 0 && le64(&pay, 8) == 1 && le64(&pay, 16) == 2, "C04: endpoint indices do not count endpoints in value order");
    assert!(!env::is_open(a_fd) && !env::is_open(c_fd), "C03/C09: the local copy of a receiving end is still open after it was sent");
    assert!(env::is_open(fd_of(&b_tx)), "C03: the caller's own sender handle was closed by sending an opaque clone of it");
    assert!(ipc::verif_hooks::serialization_tables_len() == (0, 0), "C14: side tables not empty after the send");
    drop((tx, rx, a_tx, b_tx, b_rx, c_tx));
    assert!(env::nopen() == 0 && env::nmapped() == 0 && !env::bad_close(), "C11: descriptors or mappings left after everything was dropped");
    crate::reach_end!();
}

harnesses! {
    #[unwind(8)] fn ser_receivers_move() { ser_receivers() }
    #[unwind(8)] fn ser_mixed_indices() { ser_mixed() }
    #[unwind(8)] fn ser_nested_regions_ok() { ser_nested_regions(false, false) }
    #[unwind(8)] fn ser_nested_regions_inner_fails() { ser_nested_regions(true, false) }
    #[unwind(8)] fn ser_nested_regions_inner_refused() { ser_nested_regions(false, true) }
    #[unwind(8)] fn ser_nested_inner_refused() { ser_nested(false, true) }
    #[unwind(8)] fn ser_fail_visit0() { ser_fail(0) }
    #[unwind(8)] fn ser_fail_visit1() { ser_fail(1) }
    #[unwind(8)] fn ser_fail_visit2() { ser_fail(2) }
    #[unwind(8)] fn ser_fail_visit3() { ser_fail(3) }
    #[unwind(8)] fn ser_nested_ok() { ser_nested(false, false) }
    #[unwind(8)] fn ser_nested_inner_fails() { ser_nested(true, false) }
}
