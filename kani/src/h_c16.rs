//! C16 — undecodable or mismatched payloads produce errors, not panics or leaks.
//!
//! An undecoded message is built (hook H3) from symbolic bytes of symbolic length (<= NB) and an
//! attachment list whose *structure* (how many channels / regions) is concrete per harness, then
//! decoded as T.  Under Kani every panic (index, unwrap, assert!, debug_assert! — Kani builds the
//! dev profile) is a failed property; afterwards the ledger must be balanced.
use crate::env;
use crate::util::*;
use crate::{cover, harnesses};
#[cfg(not(kani))]
use crate::kani;
use ipc_channel::ipc::{self, IpcReceiver, IpcSender, IpcSharedMemory, OpaqueIpcMessage};
use ipc_channel::platform::{self, verif_hooks as ph, OsIpcSharedMemory};
use libc::c_int;
use serde::{Deserialize, Serialize};

pub const NB: usize = 17;

pub struct Att {
    pub ch_obj: [i64; 2],    // kernel objects of the attached channels
    pub ch_peer: [c_int; 2], // harness-held other ends
    pub nch: usize,
    pub nreg: usize,
    pub bytes: [u8; NB], // the payload
    pub len: usize,
}
impl Att {
    /// the little-endian u64 at payload offset `off` (None if the payload is shorter)
    pub fn word(&self, off: usize) -> Option<u64> {
        if off + 8 > self.len {
            return None;
        }
        let mut b = [0u8; 8];
        b.copy_from_slice(&self.bytes[off..off + 8]);
        Some(u64::from_le_bytes(b))
    }
}

/// message with `len<=NB` symbolic bytes, `nch<=2` socket attachments, `nreg<=2` regions
pub fn garbage_message(nch: usize, nreg: usize) -> (OpaqueIpcMessage, Att) {
    let bytes: [u8; NB] = kani::any();
    let len: usize = any_usize_in(0, NB);
    let mut att = Att { ch_obj: [-1; 2], ch_peer: [-1; 2], nch, nreg, bytes, len };
    let mut ch = Vec::new();
    let mut i = 0;
    while i < nch {
        let (a, b) = raw_pair();
        att.ch_obj[i] = obj(a);
        att.ch_peer[i] = b;
        ch.push(ph::opaque_from_fd(a));
        i += 1;
    }
    let mut regs = Vec::new();
    let mut i = 0;
    while i < nreg {
        regs.push(OsIpcSharedMemory::from_bytes(&[7u8 + i as u8, 8, 9]));
        i += 1;
    }
    (ipc::verif_hooks::opaque_message(bytes[..len].to_vec(), ch, regs), att)
}

pub fn finish(att: &Att) {
    // the harness's own descriptors
    let mut i = 0;
    while i < att.nch {
        raw_close(att.ch_peer[i]);
        i += 1;
    }
    // "Attachments that could not be handed to the program are released rather than kept open."
    assert!(env::nopen() == 0, "C16-LEAK: descriptor kept open after message and result were dropped");
    assert!(env::nmapped() == 0, "C16-LEAK: mapping kept after message and result were dropped");
    assert!(!env::bad_close(), "C16-DOUBLE-CLOSE");
    assert!(!env::model_bound_exceeded(), "MODEL-BOUND");
    crate::reach_end!();
}

fn plain<T: for<'de> Deserialize<'de> + Serialize>(nch: usize, nreg: usize) {
    setup(64);
    let (m, att) = garbage_message(nch, nreg);
    let r = m.to::<T>();
    crate::witness!(r.is_ok(), "WITNESS:REACH_OK");
    crate::witness!(r.is_err(), "WITNESS:REACH_ERR");
    drop(r);
    finish(&att);
}

#[derive(Serialize, Deserialize, PartialEq, Clone, Copy)]
pub enum E3 {
    A,
    B(u8),
    C { x: u16, y: u8 },
}

fn one_of(o: i64, att: &Att) -> bool {
    (att.nch > 0 && o == att.ch_obj[0]) || (att.nch > 1 && o == att.ch_obj[1])
}
fn sender(nch: usize, nreg: usize) {
    setup(64);
    let (m, att) = garbage_message(nch, nreg);
    let r = m.to::<IpcSender<u8>>();
    crate::witness!(r.is_ok(), "WITNESS:REACH_OK");
    crate::witness!(r.is_err(), "WITNESS:REACH_ERR");
    if let Ok(s) = &r {
        assert!(one_of(sender_obj(s), &att), "C16-FOREIGN: decoded an endpoint that was not attached");
    }
    drop(r);
    finish(&att);
}
fn sender_pair(nch: usize) {
    setup(64);
    let (m, att) = garbage_message(nch, 0);
    let r = m.to::<(IpcSender<u8>, IpcSender<u8>)>();
    crate::witness!(r.is_ok(), "WITNESS:REACH_OK");
    crate::witness!(r.is_err(), "WITNESS:REACH_ERR");
    if let Ok((a, b)) = &r {
        let (oa, ob) = (sender_obj(a), sender_obj(b));
        assert!(one_of(oa, &att) && one_of(ob, &att), "C16-FOREIGN: decoded an endpoint that was not attached");
        assert!(oa != ob, "C16-TWICE: one attachment handed out twice");
    }
    drop(r);
    finish(&att);
}
fn receiver(nch: usize) {
    setup(64);
    let (m, att) = garbage_message(nch, 0);
    let r = m.to::<IpcReceiver<u8>>();
    crate::witness!(r.is_ok(), "WITNESS:REACH_OK");
    crate::witness!(r.is_err(), "WITNESS:REACH_ERR");
    if let Ok(s) = &r {
        assert!(one_of(receiver_obj(s), &att), "C16-FOREIGN: decoded an endpoint that was not attached");
    }
    drop(r);
    finish(&att);
}
fn shm(nreg: usize) {
    setup(64);
    let (m, att) = garbage_message(0, nreg);
    let r = m.to::<IpcSharedMemory>();
    crate::witness!(r.is_ok(), "WITNESS:REACH_OK");
    crate::witness!(r.is_err(), "WITNESS:REACH_ERR");
    if let Ok(s) = &r {
        // either the empty region or one of the attached ones, with its contents
        assert!(
            s.len() == 0 || (s.len() == 3 && (s[0] as usize) >= 7 && (s[0] as usize) < 7 + nreg && s[2] == 9),
            "C16-FOREIGN: decoded a region that was not attached"
        );
        // the empty region travels as the index usize::MAX; any other index that names no (unused) attached
        // region is "out of range or used twice" and must be an error, not an empty region
        assert!(s.len() != 0 || att.word(0) == Some(u64::MAX), "C16-RANGE: an index that names no attached region decoded as an (empty) region");
    }
    drop(r);
    finish(&att);
}
fn shm_pair(nreg: usize) {
    setup(64);
    let (m, att) = garbage_message(0, nreg);
    let r = m.to::<(IpcSharedMemory, IpcSharedMemory)>();
    crate::witness!(r.is_ok(), "WITNESS:REACH_OK");
    crate::witness!(r.is_err(), "WITNESS:REACH_ERR");
    if let Ok((a, b)) = &r {
        assert!(a.len() == 0 || b.len() == 0 || a[0] != b[0], "C16-TWICE: one region handed out twice");
        assert!(a.len() != 0 || att.word(0) == Some(u64::MAX), "C16-RANGE: an index that names no unused attached region decoded as an (empty) region");
        assert!(b.len() != 0 || att.word(8) == Some(u64::MAX), "C16-RANGE: an index that names no unused attached region decoded as an (empty) region");
    }
    drop(r);
    finish(&att);
}
fn mixed() {
    setup(64);
    let (m, att) = garbage_message(1, 1);
    let r = m.to::<(IpcSender<u8>, IpcSharedMemory, u8)>();
    crate::witness!(r.is_ok(), "WITNESS:REACH_OK");
    crate::witness!(r.is_err(), "WITNESS:REACH_ERR");
    drop(r);
    finish(&att);
}

/// C14 (receiving side): a receive nested inside a Deserialize impl, between two regions of the
/// enclosing message.  Outer payload: index 0, (nothing for the nested field), index 1.
static mut INNER: Option<OpaqueIpcMessage> = None;
struct RecvNow(u8);
impl Serialize for RecvNow {
    fn serialize<S: serde::Serializer>(&self, _s: S) -> Result<S::Ok, S::Error> {
        unimplemented!()
    }
}
impl<'de> Deserialize<'de> for RecvNow {
    fn deserialize<D: serde::Deserializer<'de>>(_d: D) -> Result<Self, D::Error> {
        use serde::de::Error;
        let m = unsafe { INNER.take() }.unwrap();
        let (x, r) = m.to::<(u8, IpcSharedMemory)>().map_err(|_| D::Error::custom("inner"))?;
        if r.len() != 3 || r[0] != 9 {
            return Err(D::Error::custom("inner region"));
        }
        Ok(RecvNow(x))
    }
}
fn de_nested() {
    setup(64);
    let ra = OsIpcSharedMemory::from_bytes(&[1u8, 1]);
    let rb = OsIpcSharedMemory::from_bytes(&[2u8, 2, 2, 2]);
    let rc = OsIpcSharedMemory::from_bytes(&[9u8, 9, 9]);
    let x: u8 = kani::any();
    let mut inner = vec![x];
    inner.extend_from_slice(&0u64.to_le_bytes());
    unsafe { INNER = Some(ipc::verif_hooks::opaque_message(inner, vec![], vec![rc])) };
    let mut outer = Vec::new();
    outer.extend_from_slice(&0u64.to_le_bytes());
    outer.extend_from_slice(&1u64.to_le_bytes());
    let m = ipc::verif_hooks::opaque_message(outer, vec![], vec![ra, rb]);
    let r = m.to::<(IpcSharedMemory, RecvNow, IpcSharedMemory)>();
    assert!(r.is_ok(), "C14: a receive nested in a Deserialize impl disturbed the enclosing message's attachments");
    let (a, n, b) = r.unwrap();
    assert!(n.0 == x && a.len() == 2 && a[0] == 1 && b.len() == 4 && b[0] == 2, "C14: enclosing message's regions misplaced after a nested receive");
    drop((a, b));
    assert!(env::nopen() == 0 && env::nmapped() == 0 && !env::bad_close(), "C11: ledger");
    crate::reach_end!();
}

/// the same with CHANNELS: the enclosing message carries two senders, the nested one a third
static mut INNER_CH: Option<OpaqueIpcMessage> = None;
struct RecvNowCh(u8, i64);
impl Serialize for RecvNowCh {
    fn serialize<S: serde::Serializer>(&self, _s: S) -> Result<S::Ok, S::Error> {
        unimplemented!()
    }
}
impl<'de> Deserialize<'de> for RecvNowCh {
    fn deserialize<D: serde::Deserializer<'de>>(_d: D) -> Result<Self, D::Error> {
        use serde::de::Error;
        let m = unsafe { INNER_CH.take() }.unwrap();
        let (x, s) = m.to::<(u8, IpcSender<u8>)>().map_err(|_| D::Error::custom("inner"))?;
        let o = obj(ph::sender_fd(ipc::verif_hooks::sender_os(&s)));
        drop(s);
        Ok(RecvNowCh(x, o))
    }
}
fn de_nested_channels() {
    setup(64);
    let (a0, a1) = raw_pair();
    let (b0, b1) = raw_pair();
    let (c0, c1) = raw_pair();
    let (oa, ob, oc) = (obj(a0), obj(b0), obj(c0));
    let x: u8 = kani::any();
    let mut inner = vec![x];
    inner.extend_from_slice(&0u64.to_le_bytes());
    unsafe { INNER_CH = Some(ipc::verif_hooks::opaque_message(inner, vec![ph::opaque_from_fd(c0)], vec![])) };
    let mut outer = Vec::new();
    outer.extend_from_slice(&0u64.to_le_bytes());
    outer.extend_from_slice(&1u64.to_le_bytes());
    let m = ipc::verif_hooks::opaque_message(outer, vec![ph::opaque_from_fd(a0), ph::opaque_from_fd(b0)], vec![]);
    let r = m.to::<(IpcSender<u8>, RecvNowCh, IpcSender<u8>)>();
    assert!(r.is_ok(), "C14: a receive nested in a Deserialize impl disturbed the enclosing message's channels");
    let (a, n, b) = r.unwrap();
    assert!(n.0 == x && n.1 == oc, "C14: nested message's own channel");
    assert!(obj(ph::sender_fd(ipc::verif_hooks::sender_os(&a))) == oa && obj(ph::sender_fd(ipc::verif_hooks::sender_os(&b))) == ob,
        "C14: enclosing message's channels misplaced after a nested receive");
    drop((a, b));
    raw_close(a1);
    raw_close(b1);
    raw_close(c1);
    assert!(env::nopen() == 0 && env::nmapped() == 0 && !env::bad_close(), "C11: ledger");
    crate::reach_end!();
}

harnesses! {
    #[unwind(14)] fn c14_de_nested() { de_nested() }
    #[unwind(14)] fn c14_de_nested_channels() { de_nested_channels() }
    // an unconverted channel whose descriptor NUMBER is 0 (a process without stdin) is released too
    #[unwind(19)] fn c16_drop_undecoded_fd0() {
        setup(64);
        env::next_fd_is(0);
        let (m, att) = garbage_message(1, 0);
        drop(m);
        finish(&att);
    }
    #[unwind(19)] fn c16_u8_00() { plain::<u8>(0, 0) }
    #[unwind(19)] fn c16_vec_u16_00() { plain::<Vec<u16>>(0, 0) }
    #[unwind(19)] fn c16_nested_struct_00() { plain::<(E3, Option<(u8, u16)>, [u8; 2])>(0, 0) }
    #[unwind(19)] fn c16_opt_sender_10() { plain::<Option<IpcSender<u8>>>(1, 0) }
    #[unwind(19)] fn c16_u32pair_00() { plain::<(u32, u32)>(0, 0) }
    #[unwind(19)] fn c16_opt_u8_00() { plain::<Option<u8>>(0, 0) }
    #[unwind(19)] fn c16_enum3_00() { plain::<E3>(0, 0) }
    #[unwind(19)] fn c16_vec_u8_00() { plain::<Vec<u8>>(0, 0) }
    // a type that references none of the attachments it came with
    #[unwind(19)] fn c16_u8_10() { plain::<u8>(1, 0) }
    #[unwind(19)] fn c16_u8_01() { plain::<u8>(0, 1) }
    #[unwind(19)] fn c16_u8_21() { plain::<u8>(2, 1) }
    #[unwind(19)] fn c16_sender_00() { sender(0, 0) }
    #[unwind(19)] fn c16_sender_10() { sender(1, 0) }
    #[unwind(19)] fn c16_sender_21() { sender(2, 1) }
    #[unwind(19)] fn c16_sender_pair_10() { sender_pair(1) }
    #[unwind(19)] fn c16_sender_pair_20() { sender_pair(2) }
    #[unwind(19)] fn c16_receiver_10() { receiver(1) }
    #[unwind(19)] fn c16_receiver_20() { receiver(2) }
    #[unwind(19)] fn c16_shm_00() { shm(0) }
    #[unwind(19)] fn c16_shm_01() { shm(1) }
    #[unwind(19)] fn c16_shm_02() { shm(2) }
    #[unwind(19)] fn c16_shm_pair_01() { shm_pair(1) }
    #[unwind(19)] fn c16_shm_pair_02() { shm_pair(2) }
    #[unwind(19)] fn c16_mixed_11() { mixed() }
    // receiving a message with attachments and dropping it without decoding it
    #[unwind(19)] fn c16_drop_undecoded_21() {
        setup(64);
        let (m, att) = garbage_message(2, 1);
        drop(m);
        finish(&att);
    }
}
