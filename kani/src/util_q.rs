//! Shared helpers for harnesses over the queueing environment (model or native).
use crate::env;
use ipc_channel::ipc::{self, IpcReceiver, IpcSender};
use ipc_channel::platform::{self, verif_hooks as ph, OsIpcReceiver, OsIpcSender, OsOpaqueIpcChannel};
use libc::c_int;

/// `format!` reaches float formatting through `dyn Display`; error messages and the shm name are
/// not observable through the model, so formatting returns an empty string (listed in evidence).
pub fn fmt_stub(_a: core::fmt::Arguments<'_>) -> String {
    String::new()
}

pub fn setup(sndbuf: u32) {
    env::link();
    env::set_sndbuf(sndbuf);
    // force the lazy SYSTEM_SENDBUF_SIZE now (it creates and drops a socket pair)
    let _ = OsIpcSender::get_max_fragment_size();
}

/// a raw connected socket pair straight from the environment (not through the crate)
pub fn raw_pair() -> (c_int, c_int) {
    let mut sv = [0 as c_int; 2];
    let r = unsafe { libc::socketpair(libc::AF_UNIX, libc::SOCK_SEQPACKET | libc::SOCK_CLOEXEC, 0, sv.as_mut_ptr()) };
    assert!(r == 0);
    (sv[0], sv[1])
}
pub fn obj(fd: c_int) -> i64 {
    env::object_of(fd)
}
pub fn sender_obj<T>(s: &IpcSender<T>) -> i64 {
    obj(ph::sender_fd(ipc::verif_hooks::sender_os(s)))
}
pub fn receiver_obj<T>(r: &IpcReceiver<T>) -> i64 {
    obj(ph::receiver_fd(ipc::verif_hooks::receiver_os(r)))
}
pub fn raw_close(fd: c_int) {
    let r = unsafe { libc::close(fd) };
    assert!(r == 0);
}
