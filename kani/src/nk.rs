//! Native stand-in for the `kani` API: `any()` pulls the solver's concrete values (from Kani's
//! concrete playback, in generation order) or, with no values loaded, pseudo-random ones
//! (model validation runs).  `assume(false)` ends the run with a distinct exit code.
use std::cell::RefCell;

pub struct Src {
    pub vals: Vec<Vec<u8>>,
    pub next: usize,
    pub random: bool,
    pub rng: u64,
}
thread_local! {
    pub static SRC: RefCell<Src> = RefCell::new(Src { vals: Vec::new(), next: 0, random: false, rng: 0x9E3779B97F4A7C15 });
}
pub fn load(vals: Vec<Vec<u8>>) {
    SRC.with(|s| {
        let mut s = s.borrow_mut();
        s.vals = vals;
        s.next = 0;
        s.random = false;
    })
}
pub fn load_random(seed: u64) {
    SRC.with(|s| {
        let mut s = s.borrow_mut();
        s.random = true;
        s.rng = seed | 1;
    })
}
fn take(n: usize) -> Vec<u8> {
    SRC.with(|s| {
        let mut s = s.borrow_mut();
        if s.random {
            let mut v = Vec::with_capacity(n);
            for _ in 0..n {
                // xorshift64*; small values are over-represented so that bounded assumes hold often
                s.rng ^= s.rng >> 12;
                s.rng ^= s.rng << 25;
                s.rng ^= s.rng >> 27;
                let r = s.rng.wrapping_mul(0x2545F4914F6CDD1D);
                let b = (r >> 56) as u8;
                v.push(if (r >> 8) & 3 == 0 { b } else { b & 0x0f });
            }
            if n > 1 {
                // multi-byte integers: uniform bit length, so that small and huge values both occur
                let bits = (v[0] as usize * 7 + v[1] as usize) % (8 * n + 1);
                let mut x: u128 = 0;
                for b in v.iter() {
                    x = (x << 8) | *b as u128;
                }
                x = if bits == 0 { 0 } else { (x | (1u128 << (8 * n - 1))) >> (8 * n - bits) };
                for (i, b) in v.iter_mut().enumerate() {
                    *b = (x >> (8 * i)) as u8;
                }
            }
            return v;
        }
        if s.next >= s.vals.len() {
            println!("REPLAY-VALUES-EXHAUSTED at any() #{}", s.next);
            std::process::exit(79);
        }
        let v = s.vals[s.next].clone();
        s.next += 1;
        if v.len() != n {
            println!("REPLAY-VALUE-SIZE-MISMATCH at any() #{}: have {} want {}", s.next - 1, v.len(), n);
            std::process::exit(79);
        }
        v
    })
}

pub trait Arbitrary: Sized {
    fn any() -> Self;
}
macro_rules! arb_int {
    ($($t:ty),*) => {$(
        impl Arbitrary for $t {
            fn any() -> Self {
                let v = take(core::mem::size_of::<$t>());
                let mut b = [0u8; core::mem::size_of::<$t>()];
                b.copy_from_slice(&v);
                <$t>::from_le_bytes(b)
            }
        }
    )*};
}
arb_int!(u8, u16, u32, u64, usize, i8, i16, i32, i64, isize);
impl Arbitrary for bool {
    fn any() -> Self {
        take(1)[0] & 1 == 1
    }
}
impl<T: Arbitrary, const N: usize> Arbitrary for [T; N] {
    fn any() -> Self {
        core::array::from_fn(|_| T::any())
    }
}
impl<T: Arbitrary> Arbitrary for Option<T> {
    fn any() -> Self {
        if bool::any() {
            Some(T::any())
        } else {
            None
        }
    }
}
pub fn any<T: Arbitrary>() -> T {
    T::any()
}
pub fn is_random() -> bool {
    SRC.with(|s| s.borrow().random)
}
/// next raw 64 random bits (random mode only)
pub fn rnd64() -> u64 {
    let v = take_raw8();
    u64::from_le_bytes(v)
}
fn take_raw8() -> [u8; 8] {
    SRC.with(|s| {
        let mut s = s.borrow_mut();
        s.rng ^= s.rng >> 12;
        s.rng ^= s.rng << 25;
        s.rng ^= s.rng >> 27;
        s.rng.wrapping_mul(0x2545F4914F6CDD1D).to_le_bytes()
    })
}
pub fn assume(c: bool) {
    if !c {
        println!("REPLAY-ASSUMPTION-FAILED");
        std::process::exit(78);
    }
}
#[macro_export]
macro_rules! kani_cover {
    ($($t:tt)*) => {};
}
