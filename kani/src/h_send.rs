//! C01 / C02 / C13 (sending side) — `send_plan`: the real `OsIpcSender::send` over the recording
//! kernel.  Solver variables: the send-buffer size the system reports (4 KiB .. 16 MiB), the
//! message length (0 .. 64 MiB), the ENOBUFS pattern over the first 8 transmission attempts.
//! No byte is copied, so this runs at full machine width: "every length, every buffer size,
//! every refusal pattern" within the attempt bound.
use crate::env;
use crate::util::*;
use crate::{cover, harnesses};
#[cfg(not(kani))]
use crate::kani;
use ipc_channel::platform::{self, verif_hooks as ph, OsIpcChannel, OsIpcSender, OsIpcSharedMemory};
use libc::c_int;

/// `natt`: number of user attachments (0, or 3 = sender + receiver + sender)
/// `mask_bits`: how many leading attempts may be refused with ENOBUFS
fn send_plan(natt: usize, mask_bits: u32, max_len: usize, max_sb: u32) {
    send_plan_n(natt, mask_bits, max_len, max_sb, 10)
}
fn send_plan_n(natt: usize, mask_bits: u32, max_len: usize, max_sb: u32, max_attempts: usize) {
    env::link();
    env::set_max_attempts(max_attempts);
    let sb: u32 = any_u32_in(4096, max_sb);
    env::set_sndbuf(sb);
    env::set_record_only(true);
    let first_window = OsIpcSender::get_max_fragment_size(); // what the receiver's first read can take
    let follow_window = ph::fragment_size(sb as usize); // what each follow-up read can take
    let kernel_max = sb as usize - 32; // largest datagram the kernel accepts for this buffer size
    let (tx, rx) = platform::channel().unwrap();
    let shared_fd = ph::sender_fd(&tx);
    let len: usize = any_usize_in(0, max_len);
    let data = env::data_buf(len);
    let base = data.as_ptr() as usize;

    let mut user = [-1 as c_int; 3];
    let mut chans = Vec::new();
    let regs: Vec<OsIpcSharedMemory> = Vec::new();
    let mut keep = Vec::new();
    if natt == 3 {
        let (atx, arx) = platform::channel().unwrap();
        let (btx, brx) = platform::channel().unwrap();
        user[0] = ph::sender_fd(&atx);
        user[1] = ph::receiver_fd(&brx);
        chans.push(OsIpcChannel::Sender(atx.clone()));
        chans.push(OsIpcChannel::Receiver(brx));
        let (ctx, crx) = platform::channel().unwrap();
        user[2] = ph::sender_fd(&ctx);
        chans.push(OsIpcChannel::Sender(ctx.clone()));
        keep.push((atx, arx, btx, ctx, crx));
    }
    let mask: u32 = any_u32_in(0, (1 << mask_bits) - 1);
    let seq0 = env::seq_now();
    env::set_enobufs_mask(mask);

    let r = tx.send(data, chans, regs);

    let n = env::att_count();
    let mut pos = 0usize;
    let mut first_ok = false;
    let mut dedicated_rx: c_int = -1;
    let mut i = 0;
    while i < n {
        let a = env::att(i);
        if a.has_hdr {
            // a first fragment (or the whole message): on the shared socket, before anything else got through
            assert!(!first_ok, "C02: a second header packet after the first one was delivered");
            assert!(a.fd == shared_fd, "C02: header packet not on the channel's own socket");
            assert!(a.hdr == len, "C01: header does not carry the total length");
            assert!(a.base == base, "C01: first fragment does not start at byte 0");
            assert!(a.len <= len, "C01: first fragment longer than the message");
            assert!(a.len <= first_window, "C13: first fragment larger than the receiver's first read");
            assert!(a.len + 8 <= kernel_max, "C13: first packet larger than the kernel accepts for this buffer size");
            assert!(a.ctl_ok, "C18: malformed control message");
            let frag = a.len < len;
            assert!(a.nfds == natt + if frag { 1 } else { 0 }, "C04/C13: wrong number of descriptors on the header packet");
            let mut j = 0;
            while j < natt {
                assert!(a.fds[j] == user[j], "C04: attachments not in value order");
                j += 1;
            }
            if frag {
                let d = a.fds[natt];
                assert!(env::pair_of(d) >= 0 && env::create_seq(d) > seq0, "C02: last descriptor is not a fresh dedicated channel");
                assert!(dedicated_rx == -1 || dedicated_rx == d, "C02: dedicated channel changed between retries");
                dedicated_rx = d;
            }
            if a.ok {
                first_ok = true;
                pos = a.len;
            }
        } else {
            assert!(first_ok, "C02: follow-up fragment before the header packet got through");
            assert!(dedicated_rx >= 0 && a.fd == env::pair_of(dedicated_rx), "C02: follow-up not on the dedicated channel");
            assert!(a.base == base + pos, "C01: follow-up does not continue where the last delivered byte ended");
            assert!(a.len > 0, "C01: empty follow-up (receiver would take it for end of stream)");
            assert!(a.len <= len - pos, "C01: follow-up runs past the end of the message");
            assert!(a.len <= follow_window, "C13: follow-up larger than the receiver's read window");
            assert!(a.len <= kernel_max, "C13: follow-up larger than the kernel accepts for this buffer size");
            assert!(a.nfds == 0);
            if a.ok {
                pos += a.len;
            }
        }
        i += 1;
    }
    if r.is_ok() {
        assert!(first_ok && pos == len, "C01/C13: send reported success but the delivered packets do not make up the message");
    }
    crate::witness!(r.is_ok() && n >= 3, "WITNESS:REACH_OK_FRAGMENTED");
    if mask_bits > 0 {
        crate::witness!(r.is_err(), "WITNESS:REACH_ERR");
    }
    // the dedicated pair is gone again whatever happened (C11)
    if dedicated_rx >= 0 {
        assert!(!env::is_open(dedicated_rx) && !env::is_open(env::pair_of(dedicated_rx)), "C11: dedicated channel leaked");
    }
    core::mem::forget(r);
    drop(keep);
    drop(tx);
    drop(rx);
    assert!(env::nopen() == 0 && !env::bad_close(), "C11: ledger after send");
    crate::reach_end!();
}

/// C15 (sending side): `n` attachments (clones of one sender); message of `len` bytes with the
/// reported send-buffer size 64 (first fragment 24); optionally the first attempt is refused with
/// ENOBUFS (only possible for > 2000 bytes, so that variant reports 8192 and sends 3000 bytes).
/// Whatever `send` answers, no header packet may carry more descriptors than the receiver's control
/// buffer takes (64 — the capacity `many_*` establish on the receiving side), and `Ok` means the
/// whole message went out.
pub fn send_many(n: usize, len: usize, sb: u32, mask: u32) {
    env::link();
    env::set_sndbuf(sb);
    env::set_record_only(true);
    let _ = OsIpcSender::get_max_fragment_size();
    let (tx, rx) = platform::channel().unwrap();
    let (atx, arx) = platform::channel().unwrap();
    let mut chans = Vec::new();
    let mut i = 0;
    while i < n {
        chans.push(OsIpcChannel::Sender(atx.clone()));
        i += 1;
    }
    let data = env::data_buf(len);
    env::set_enobufs_mask(mask);
    let r = tx.send(data, chans, vec![]);
    let cnt = env::att_count();
    let mut i = 0;
    let mut delivered = 0usize;
    let mut header_ok = false;
    while i < cnt {
        let a = env::att(i);
        if a.has_hdr {
            assert!(a.nfds <= ph::max_fds_in_cmsg(), "C15: a header packet carries more descriptors than the receiver can take");
            if a.ok {
                header_ok = true;
                assert!(a.nfds == n + if a.len < len { 1 } else { 0 }, "C15: accepted message does not carry all attachments");
            }
        }
        if a.ok {
            delivered += a.len;
        }
        i += 1;
    }
    if r.is_ok() {
        assert!(header_ok && delivered == len, "C15: send reported success for an incomplete message");
    }
    crate::witness!(r.is_ok(), "WITNESS:REACH_OK");
    crate::witness!(r.is_err(), "WITNESS:REACH_ERR");
    // the channel remains usable for other messages
    env::set_enobufs_mask(0);
    let r2 = tx.send(&[1u8], vec![], vec![]);
    assert!(r2.is_ok() && env::att_count() == 1 && env::att(0).ok && env::att(0).nfds == 0, "C15: channel unusable after a refused message");
    core::mem::forget((r, r2));
    drop((tx, rx, atx, arx));
    assert!(env::nopen() == 0 && !env::bad_close(), "C11: ledger after send");
    crate::reach_end!();
}

/// C03/C09/C11 (sending side): a RECEIVING end handed to `send` is moved — when `send` returns, this
/// process holds no copy of it any more (otherwise the receiver "exists" for ever: sends to it never
/// fail, and senders queued inside it are never released).  A SENDING end that was cloned for the
/// message leaves exactly the caller's own handle.  `len`/`sb`/`mask` choose one packet, several, or a
/// refused first attempt.
pub fn send_moves_receiver(len: usize, sb: u32, mask: u32) {
    env::link();
    env::set_sndbuf(sb);
    env::set_record_only(true);
    let _ = OsIpcSender::get_max_fragment_size();
    let (tx, rx) = platform::channel().unwrap();
    let (atx, arx) = platform::channel().unwrap();
    let (btx, brx) = platform::channel().unwrap();
    let arx_fd = ph::receiver_fd(&arx);
    let btx_fd = ph::sender_fd(&btx);
    let chans = vec![OsIpcChannel::Receiver(arx), OsIpcChannel::Sender(btx.clone())];
    let data = env::data_buf(len);
    env::set_enobufs_mask(mask);
    let r = tx.send(data, chans, vec![]);
    assert!(r.is_ok(), "C13: one refusal of a packet > 2000 bytes is absorbed");
    let cnt = env::att_count();
    let mut i = 0;
    let mut seen = false;
    while i < cnt {
        let a = env::att(i);
        if a.has_hdr && a.ok {
            assert!(a.nfds >= 2 && a.fds[0] == arx_fd, "C04: the receiving end is the first descriptor of the header packet");
            seen = true;
        }
        i += 1;
    }
    assert!(seen, "C01: no header packet got through although send reported success");
    assert!(!env::is_open(arx_fd), "C03/C09: the local copy of a receiving end is still open after it was sent");
    assert!(env::is_open(btx_fd), "C03: the caller's own sender handle was closed by sending a clone of it");
    core::mem::forget(r);
    drop((tx, rx, atx, btx, brx));
    assert!(env::nopen() == 0 && !env::bad_close(), "C11: ledger after send");
    crate::reach_end!();
}

harnesses! {
    #[unwind(12)] fn send_moves_receiver_small() { send_moves_receiver(100, 8192, 0) }
    #[unwind(12)] fn send_moves_receiver_frag() { send_moves_receiver(9000, 8192, 0) }
    #[unwind(12)] fn send_moves_receiver_retry() { send_moves_receiver(3000, 8192, 0b1) }
    // no refusals: all lengths and buffer sizes, up to 8 packets
    #[unwind(12)] fn send_plan_noatt_nofault() { send_plan(0, 0, 1 << 26, 1 << 24) }
    #[unwind(12)] fn send_plan_att_nofault() { send_plan(3, 0, 1 << 26, 1 << 24) }
    // every ENOBUFS pattern over the first 8 attempts
    #[unwind(12)] fn send_plan_noatt_enobufs() { send_plan(0, 8, 1 << 26, 1 << 24) }
    // concrete shapes around a REFUSED FIRST FRAGMENT (cheap to decide and to replay): the retried header
    // packet must carry exactly the attachments plus one dedicated channel
    #[unwind(12)] fn send_retry_first_single_att() { send_many(2, 3000, 8192, 0b1) }
    #[unwind(12)] fn send_retry_first_frag_att() { send_many(2, 9000, 8192, 0b1) }
    #[unwind(12)] fn send_retry_first_frag_noatt() { send_many(0, 9000, 8192, 0b101) }
    // quick-tier variants: <= 6 attempts, 4 mask bits, buffer size <= 1 MiB, length <= 4 MiB (same code paths; the
    // full ranges above are the thorough tier)
    #[unwind(8)] fn send_plan_noatt_enobufs_q() { send_plan_n(0, 4, 1 << 22, 1 << 20, 6) }
    #[unwind(8)] fn send_plan_att_enobufs_q() { send_plan_n(3, 4, 1 << 22, 1 << 20, 6) }
    #[unwind(12)] fn send_plan_att_enobufs() { send_plan(3, 8, 1 << 26, 1 << 24) }
}
