//! C01 / C18 — byte-exact round trips through the real send and the real recv over the queueing
//! kernel.  The reported send-buffer size is 64 (first fragment 24 bytes, follow-ups 32), lengths
//! are concrete per harness (the boundary set), CONTENTS are solver variables.  Symbolic lengths
//! and buffer sizes are decided by `send_plan` (sender) and `recv_plan` (receiver).
use crate::env;
use crate::util::*;
use crate::{cover, harnesses};
#[cfg(not(kani))]
use crate::kani;
use ipc_channel::ipc::{self, IpcSharedMemory};
use ipc_channel::platform::{self, verif_hooks as ph, OsIpcSender};
use serde::{Deserialize, Serialize};

fn end_ledger() {
    assert!(env::nopen() == 0, "C11: descriptor left open");
    assert!(env::nmapped() == 0, "C11: mapping left");
    assert!(!env::bad_close(), "C11: close of a descriptor that was not open");
    assert!(!env::no_cloexec(), "C11: descriptor created without close-on-exec");
    assert!(!env::trunc_data() && !env::trunc_ctl(), "C18: a read truncated a packet or its descriptors");
    assert!(!env::model_bound_exceeded(), "MODEL-BOUND");
    crate::reach_end!();
}

fn roundtrip<const L: usize>(try_recv: bool) {
    setup(64);
    env::set_block_is_violation(true);
    let (tx, rx) = platform::channel().unwrap();
    let data: [u8; L] = kani::any();
    tx.send(&data[..], vec![], vec![]).unwrap();
    let (got, ch, shm) = if try_recv { rx.try_recv().unwrap() } else { rx.recv().unwrap() };
    assert!(got.len() == L, "C01: length differs");
    if L > 0 {
        let i = any_usize_in(0, L - 1);
        assert!(got[i] == data[i], "C01: byte differs");
    }
    assert!(ch.is_empty() && shm.is_empty(), "C01: attachments appeared");
    drop(got);
    drop(tx);
    // nothing else is queued: the channel now reads as closed, not as another message
    assert!(rx.try_recv().is_err());
    drop(rx);
    end_ledger();
}

/// two messages of lengths A then B: order and boundaries (C02's sequential core)
fn two_messages<const A: usize, const B: usize>() {
    setup(64);
    env::set_block_is_violation(true);
    let (tx, rx) = platform::channel().unwrap();
    let a: [u8; A] = kani::any();
    let b: [u8; B] = kani::any();
    tx.send(&a[..], vec![], vec![]).unwrap();
    let tx2 = tx.clone();
    tx2.send(&b[..], vec![], vec![]).unwrap();
    let (ga, _, _) = rx.recv().unwrap();
    let (gb, _, _) = rx.try_recv().unwrap();
    assert!(ga.len() == A && gb.len() == B, "C02: message boundaries");
    if A > 0 {
        let i = any_usize_in(0, A - 1);
        assert!(ga[i] == a[i], "C02: first message bytes");
    }
    if B > 0 {
        let i = any_usize_in(0, B - 1);
        assert!(gb[i] == b[i], "C02: second message bytes");
    }
    drop((ga, gb, tx, tx2, rx));
    end_ledger();
}

fn ipc_value<T: Serialize + for<'de> Deserialize<'de>>(v: T, eq: impl Fn(&T, &T) -> bool, v2: T) {
    setup(64);
    env::set_block_is_violation(true);
    let (tx, rx) = ipc::channel::<T>().unwrap();
    tx.send(v).unwrap();
    let g = rx.recv().unwrap();
    assert!(eq(&g, &v2), "C01: value differs");
    drop((g, tx, rx));
    end_ledger();
}

#[derive(Serialize, Deserialize, PartialEq, Clone, Copy)]
pub enum E3 {
    A,
    B(u8),
    C { x: u16, y: u8 },
}
/// the SHAPE of a value (enum variant, Option tag, Vec length) is concrete per harness so that the
/// encoded length — and with it the transport's single-packet / fragmented decision and the whole
/// model-kernel state — stays concrete for the symbolic executor; the data inside is symbolic
#[derive(Serialize, Deserialize, PartialEq, Clone, Copy)]
pub struct Inner {
    x: i64,
    y: Option<u8>,
}
#[derive(Serialize, Deserialize, PartialEq, Clone, Copy)]
pub struct Nested {
    a: u16,
    b: Option<(u32, E3)>,
    c: [u8; 2],
    d: Inner,
}
fn e3(k: u8) -> E3 {
    if k == 0 {
        E3::A
    } else if k == 1 {
        E3::B(kani::any())
    } else {
        E3::C { x: kani::any(), y: kani::any() }
    }
}
fn vec_n(n: usize) {
    let b: [u8; 3] = kani::any();
    let v = b[..n].to_vec();
    let v2 = v.clone();
    ipc_value(v, move |a, c| a.len() == c.len() && (a.len() < 1 || a[0] == c[0]) && (a.len() < 2 || a[1] == c[1]) && (a.len() < 3 || a[2] == c[2]), v2)
}

harnesses! {
    #[unwind(6)] fn rt_bytes_0() { roundtrip::<0>(false) }
    #[unwind(6)] fn rt_bytes_1() { roundtrip::<1>(false) }
    #[unwind(6)] fn rt_bytes_23() { roundtrip::<23>(false) }
    #[unwind(6)] fn rt_bytes_24() { roundtrip::<24>(false) }
    #[unwind(6)] fn rt_bytes_25() { roundtrip::<25>(false) }
    #[unwind(6)] fn rt_bytes_55() { roundtrip::<55>(false) }
    #[unwind(6)] fn rt_bytes_56() { roundtrip::<56>(false) }
    #[unwind(6)] fn rt_bytes_57() { roundtrip::<57>(true) }
    #[unwind(6)] fn rt_bytes_87() { roundtrip::<87>(false) }
    #[unwind(6)] fn rt_bytes_88() { roundtrip::<88>(true) }
    #[unwind(6)] fn rt_bytes_89() { roundtrip::<89>(false) }
    #[unwind(6)] fn rt_two_1_57() { two_messages::<1, 57>() }
    #[unwind(6)] fn rt_two_57_24() { two_messages::<57, 24>() }
    #[unwind(6)] fn rt_two_25_25() { two_messages::<25, 25>() }

    #[unwind(8)] fn ipc_val_nested_struct() {
        let v = Nested { a: kani::any(), b: Some((kani::any(), e3(2))), c: [kani::any(), kani::any()], d: Inner { x: kani::any(), y: None } };
        ipc_value(v, |p, q| p == q, v)
    }
    #[unwind(8)] fn ipc_val_u8() { let v: u8 = kani::any(); ipc_value(v, |a, b| a == b, v) }
    #[unwind(8)] fn ipc_val_u64() { let v: u64 = kani::any(); ipc_value(v, |a, b| a == b, v) }
    #[unwind(8)] fn ipc_val_tuple_some() {
        let v: (u32, Option<u16>) = (kani::any(), Some(kani::any()));
        ipc_value(v, |a, b| a == b, v)
    }
    #[unwind(8)] fn ipc_val_tuple_none() {
        let v: (u32, Option<u16>) = (kani::any(), None);
        ipc_value(v, |a, b| a == b, v)
    }
    #[unwind(8)] fn ipc_val_enum_a() { let v = e3(0); ipc_value(v, |a, b| a == b, v) }
    #[unwind(8)] fn ipc_val_enum_b() { let v = e3(1); ipc_value(v, |a, b| a == b, v) }
    #[unwind(8)] fn ipc_val_enum_c() { let v = e3(2); ipc_value(v, |a, b| a == b, v) }
    #[unwind(8)] fn ipc_val_arr4() { let v: [u8; 4] = kani::any(); ipc_value(v, |a, b| a[0] == b[0] && a[1] == b[1] && a[2] == b[2] && a[3] == b[3], v) }
    #[unwind(8)] fn ipc_val_f64() {
        let bits: u64 = kani::any();
        let v = (f64::from_bits(bits), f32::from_bits(bits as u32));
        ipc_value(v, |a, b| a.0.to_bits() == b.0.to_bits() && a.1.to_bits() == b.1.to_bits(), v)
    }
    #[unwind(8)] fn ipc_val_vec_0() { vec_n(0) }
    #[unwind(8)] fn ipc_val_vec_3() { vec_n(3) }
    // a value whose encoding needs two packets (32 bytes > 24)
    #[unwind(40)] fn ipc_val_arr32() {
        let v: [u8; 32] = kani::any();
        let i = any_usize_in(0, 31);
        ipc_value(v, move |a, b| a[i] == b[i], v)
    }
    #[unwind(8)] fn ipc_bytes_0() { ipc_bytes::<0>() }
    #[unwind(8)] fn ipc_bytes_8() { ipc_bytes::<8>() }
}

fn ipc_bytes<const N: usize>() {
    setup(64);
    env::set_block_is_violation(true);
    let (tx, rx) = ipc::bytes_channel().unwrap();
    let d: [u8; N] = kani::any();
    tx.send(&d[..]).unwrap();
    let g = rx.recv().unwrap();
    assert!(g.len() == N, "C01: length differs");
    if N > 0 {
        let i = any_usize_in(0, N - 1);
        assert!(g[i] == d[i], "C01: byte differs");
    }
    drop((g, tx, rx));
    end_ledger();
}
