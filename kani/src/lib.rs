//! Harnesses for sagudev/ipc-channel (see /verif/DESIGN.md).
//!
//! Two builds of the same harness code:
//!  * `cargo kani --features k_q|k_rec|k_plan`: the harnesses are Kani proofs; the environment is
//!    a model kernel defining the libc symbols; inputs are solver variables.
//!  * `cargo build --features k_native --bin replay`: the harnesses are ordinary functions; the
//!    environment is the real kernel behind fault-injecting wrappers (`kn.rs`); inputs are the
//!    solver's counterexample values (or pseudo-random ones for model validation).
#![allow(unused, static_mut_refs, clippy::all)]
extern crate alloc;

#[cfg(all(kani, feature = "k_q"))]
pub mod kq;
#[cfg(all(kani, feature = "k_q"))]
pub use kq as env;
#[cfg(all(kani, feature = "k_rec"))]
pub mod krec;
#[cfg(all(kani, feature = "k_rec"))]
pub use krec as env;

#[cfg(all(not(kani), feature = "k_native"))]
pub mod kn;
#[cfg(all(not(kani), feature = "k_native"))]
pub use kn as env;
#[cfg(not(kani))]
pub mod nk;
#[cfg(not(kani))]
pub use nk as kani;
#[cfg(kani)]
pub mod kani {
    pub use ::kani::*;
}

/// Vacuity witnesses.  `kani::cover!` makes CBMC emit a full trace for every satisfied cover (1.6 GB
/// of JSON for a cover at the end of a round-trip harness), so reachability is witnessed by an
/// assertion that is EXPECTED TO FAIL instead: the runner requires every "WITNESS:" check to come
/// back FAILURE (reachable with the condition true) and treats anything else as a vacuous run.
/// witness!(cond, "WITNESS:NAME"): a fresh nondeterministic choice forks the path — one copy ends
/// at the (expected) failure, the other goes on unconstrained.  Natively the same number of
/// `any()` calls is made so that replayed value sequences stay aligned.
#[macro_export]
macro_rules! witness {
    ($cond:expr, $name:literal) => {{
        #[cfg(kani)]
        {
            if $cond && ::kani::any::<bool>() {
                assert!(false, $name);
            }
        }
        #[cfg(not(kani))]
        {
            if $cond {
                let _: bool = $crate::kani::any();
            }
        }
    }};
}
/// the end of the harness is reachable under its assumptions
#[macro_export]
macro_rules! reach_end {
    () => {
        $crate::witness!(true, "WITNESS:REACH_END")
    };
}

/// `kani::cover!` under Kani, nothing natively
#[cfg(kani)]
#[macro_export]
macro_rules! cover {
    ($($t:tt)*) => { kani::cover!($($t)*) };
}
#[cfg(not(kani))]
#[macro_export]
macro_rules! cover {
    ($($t:tt)*) => {};
}

/// declares the harnesses of a module: each becomes a Kani proof (with the unwind bound and the
/// `format!` stub) and an entry of the module's native lookup table
#[macro_export]
macro_rules! harnesses {
    ($( #[unwind($u:expr)] fn $name:ident() $body:block )*) => {
        $(
            #[cfg_attr(kani, kani::proof)]
            #[cfg_attr(kani, kani::unwind($u))]
            #[cfg_attr(kani, kani::stub(alloc::fmt::format, crate::util::fmt_stub))]
            pub fn $name() $body
        )*
        #[cfg(not(kani))]
        pub fn lookup(name: &str) -> Option<fn()> {
            $( if name == stringify!($name) { return Some($name as fn()); } )*
            None
        }
        #[cfg(not(kani))]
        pub const NAMES: &[&str] = &[ $( stringify!($name) ),* ];
    };
}

pub mod util;
#[cfg(any(all(kani, feature = "k_q"), all(not(kani), feature = "k_native")))]
pub mod h_c16;
#[cfg(any(all(kani, feature = "k_q"), all(not(kani), feature = "k_native")))]
pub mod h_rt;
#[cfg(any(all(kani, feature = "k_q"), all(not(kani), feature = "k_native")))]
pub mod h_shm;
#[cfg(any(all(kani, feature = "k_q"), all(not(kani), feature = "k_native")))]
pub mod h_gone;
#[cfg(any(all(kani, feature = "k_q"), all(not(kani), feature = "k_native")))]
pub mod h_modes;
#[cfg(any(all(kani, feature = "k_q"), all(not(kani), feature = "k_native")))]
pub mod h_attach;
#[cfg(any(all(kani, feature = "k_q"), all(not(kani), feature = "k_native")))]
pub mod h_recv;
#[cfg(any(all(kani, feature = "k_q"), all(not(kani), feature = "k_native")))]
pub mod h_err;
#[cfg(any(all(kani, feature = "k_q"), all(not(kani), feature = "k_native")))]
pub mod h_hist;
#[cfg(any(all(kani, feature = "k_q"), all(not(kani), feature = "k_native")))]
pub mod h_set;
#[cfg(any(all(kani, feature = "k_q", feature = "bigfd"), all(not(kani), feature = "k_native")))]
pub mod h_many;
#[cfg(any(all(kani, feature = "k_rec"), all(not(kani), feature = "k_native")))]
pub mod h_send;
#[cfg(any(all(kani, feature = "k_rec"), all(not(kani), feature = "k_native")))]
pub mod h_ser;
#[cfg(any(all(kani, feature = "k_rec", feature = "bigfd"), all(not(kani), feature = "k_native")))]
pub mod h_sendmany;

#[cfg(all(not(kani), feature = "k_native"))]
pub fn lookup(name: &str) -> Option<fn()> {
    h_c16::lookup(name).or_else(|| h_send::lookup(name)).or_else(|| h_rt::lookup(name))
        .or_else(|| h_shm::lookup(name))
        .or_else(|| h_gone::lookup(name))
        .or_else(|| h_modes::lookup(name))
        .or_else(|| h_attach::lookup(name))
        .or_else(|| h_recv::lookup(name))
        .or_else(|| h_many::lookup(name))
        .or_else(|| h_sendmany::lookup(name))
        .or_else(|| h_ser::lookup(name))
        .or_else(|| h_err::lookup(name))
        .or_else(|| h_hist::lookup(name))
        .or_else(|| h_set::lookup2(name))
}

/// compiled once per feature set to warm the dependency cache (vlib/kanirun.py: seed_target)
#[cfg(kani)]
#[kani::proof]
fn seed_noop() {}
