//! C15 (receiving side) — needs the `bigfd` model configuration (70 descriptors per packet).
use crate::h_recv::many;
use crate::harnesses;

harnesses! {
    #[unwind(72)] fn many_63_single() { many::<63>(false) }
    #[unwind(72)] fn many_64_single() { many::<64>(false) }
    #[unwind(72)] fn many_65_single() { many::<65>(false) }
    #[unwind(72)] fn many_63_frag() { many::<63>(true) }
    #[unwind(72)] fn many_64_frag() { many::<64>(true) }
    #[unwind(72)] fn many_66_frag() { many::<66>(true) }
}
