//! Native environment: the same API as the model kernel (`kq.rs`), implemented over the REAL
//! kernel.  Used to replay solver counterexamples against the real crate on the real kernel
//! (DESIGN §4.4) and to validate the model (§4.5): the same harness code, the same assertions.
//!
//! The libc entry points the crate calls are defined here as thin wrappers that (a) apply the
//! fault variables the model exposes (reported SO_SNDBUF, ENOBUFS pattern, crash index, EMFILE
//! index, EINTR index), (b) keep the descriptor/mapping ledger, and (c) otherwise perform the
//! real system call.  Symbols defined in the executable win over libc.so for every call made from
//! code linked into the executable (the crate, std), which is exactly the code under test.
#![allow(non_upper_case_globals, unused, static_mut_refs, clippy::missing_safety_doc)]
use libc::{c_char, c_int, c_long, c_void, mode_t, msghdr, off_t, size_t, socklen_t, ssize_t};
use std::collections::HashMap;

pub const IS_MODEL: bool = false;
pub const MAXA: usize = 64;
pub const MAXF: usize = 70;
pub const PAY: usize = 40;
static mut SNAPSHOT_PAYLOAD: bool = false;
pub fn set_snapshot_payload(b: bool) {
    unsafe { SNAPSHOT_PAYLOAD = b }
}

/// one transmission attempt as the recording kernel logs it
#[derive(Clone, Copy)]
pub struct Att {
    pub fd: c_int,
    pub hdr: usize,
    pub has_hdr: bool,
    pub base: usize,
    pub len: usize,
    pub nfds: usize,
    pub fds: [c_int; MAXF],
    pub ctl_ok: bool,
    pub pay: [u8; PAY],
    pub ok: bool,
}
pub const A0: Att =
    Att { fd: -1, hdr: 0, has_hdr: false, base: 0, len: 0, nfds: 0, fds: [-1; MAXF], ctl_ok: true, pay: [0; PAY], ok: false };
static mut ATTS: Vec<Att> = Vec::new();
static mut RECORD_ONLY: bool = false;
static mut SEQ: i64 = 0;

struct St {
    on: bool,
    sndbuf: u32,
    enobufs_mask: u32,
    attempts: u32,
    crash_at: i32,
    syscalls: i32,
    fail_fd_at: i32,
    fd_creates: i32,
    eintr_at: i32,
    waits: i32,
    block_is_violation: bool,
    poll_times_out: bool,
    cur: u8,
    fds: Option<HashMap<c_int, u8>>,          // tracked open descriptors -> owner
    pairs: Option<HashMap<c_int, c_int>>,     // fd -> other end of its socketpair
    seqs: Option<HashMap<c_int, i64>>,        // fd -> creation sequence number
    maps: Option<HashMap<usize, usize>>,      // live mappings addr -> len
    bad_close: bool,
    bad_unmap: bool,
    no_cloexec: bool,
    trunc_data: bool,
    trunc_ctl: bool,
    polls: u32,
    last_poll_timeout: c_int,
}
static mut S: St = St {
    on: false,
    sndbuf: 0,
    enobufs_mask: 0,
    attempts: 0,
    crash_at: -1,
    syscalls: 0,
    fail_fd_at: -1,
    fd_creates: 0,
    eintr_at: -1,
    waits: 0,
    block_is_violation: false,
    poll_times_out: false,
    cur: 0,
    fds: None,
    pairs: None,
    seqs: None,
    maps: None,
    bad_close: false,
    bad_unmap: false,
    no_cloexec: false,
    trunc_data: false,
    trunc_ctl: false,
    polls: 0,
    last_poll_timeout: 0,
};

unsafe fn set_errno(e: c_int) {
    *libc::__errno_location() = e;
}
unsafe fn dead() -> bool {
    if !S.on || S.cur != 0 {
        return false;
    }
    let i = S.syscalls;
    S.syscalls += 1;
    S.crash_at >= 0 && i >= S.crash_at
}
unsafe fn fd_create_fails() -> bool {
    if !S.on {
        return false;
    }
    let i = S.fd_creates;
    S.fd_creates += 1;
    if S.fail_fd_at >= 0 && i == S.fail_fd_at {
        set_errno(libc::EMFILE);
        return true;
    }
    false
}
unsafe fn track(fd: c_int) {
    if !S.on || fd < 0 {
        return;
    }
    S.fds.as_mut().unwrap().insert(fd, S.cur);
    SEQ += 1;
    S.seqs.as_mut().unwrap().insert(fd, SEQ);
    S.pairs.as_mut().unwrap().remove(&fd);
    let fl = libc::syscall(libc::SYS_fcntl, fd, libc::F_GETFD, 0) as c_int;
    if fl >= 0 && fl & libc::FD_CLOEXEC == 0 {
        S.no_cloexec = true;
    }
}
/// A blocking wait that can never end in the examined (single-threaded) schedule.
static mut EOF_RECVS: u8 = 0;
unsafe fn blocks_forever() -> ! {
    if S.block_is_violation {
        println!("REPLAY-BLOCKS-FOREVER");
        libc::_exit(77);
    }
    println!("REPLAY-ASSUMPTION-FAILED blocked");
    libc::_exit(78);
}
unsafe fn would_block_now(fd: c_int) -> bool {
    // single-threaded replay: if nothing is readable now and the descriptor is blocking, the
    // call would never return
    let fl = libc::syscall(libc::SYS_fcntl, fd, libc::F_GETFL, 0) as c_int;
    if fl >= 0 && fl & libc::O_NONBLOCK != 0 {
        return false;
    }
    let mut p = libc::pollfd { fd, events: libc::POLLIN, revents: 0 };
    let r = libc::syscall(libc::SYS_poll, &mut p as *mut libc::pollfd, 1 as c_long, 50 as c_long);
    r == 0
}

#[no_mangle]
pub unsafe extern "C" fn socketpair(d: c_int, t: c_int, p: c_int, sv: *mut c_int) -> c_int {
    if dead() {
        set_errno(libc::EINTR);
        return -1;
    }
    if fd_create_fails() {
        return -1;
    }
    let r = libc::syscall(libc::SYS_socketpair, d, t, p, sv) as c_int;
    if r == 0 {
        track(*sv);
        track(*sv.add(1));
        if S.on {
            S.pairs.as_mut().unwrap().insert(*sv, *sv.add(1));
            S.pairs.as_mut().unwrap().insert(*sv.add(1), *sv);
        }
    }
    r
}
#[no_mangle]
pub unsafe extern "C" fn getsockopt(fd: c_int, l: c_int, n: c_int, v: *mut c_void, len: *mut socklen_t) -> c_int {
    if S.on && S.sndbuf != 0 && l == libc::SOL_SOCKET && n == libc::SO_SNDBUF {
        *(v as *mut u32) = S.sndbuf;
        *len = 4;
        return 0;
    }
    libc::syscall(libc::SYS_getsockopt, fd, l, n, v, len) as c_int
}
#[no_mangle]
pub unsafe extern "C" fn close(fd: c_int) -> c_int {
    if S.on && S.cur == 0 {
        S.syscalls += 1;
    }
    let tracked = S.on && S.fds.as_mut().unwrap().remove(&fd).is_some();
    let r = libc::syscall(libc::SYS_close, fd) as c_int;
    if S.on && (r != 0 || !tracked) {
        // EBADF, or closing a descriptor the library never obtained through the modelled calls
        S.bad_close = true;
    }
    r
}
pub fn exit_proc(owner: u8) {
    unsafe {
        let fds: Vec<c_int> = S.fds.as_ref().unwrap().iter().filter(|(_, o)| **o == owner).map(|(f, _)| *f).collect();
        for fd in fds {
            S.fds.as_mut().unwrap().remove(&fd);
            libc::syscall(libc::SYS_close, fd);
        }
    }
}
unsafe fn tx_gate() -> bool {
    // true = this transmission attempt must fail (errno set)
    if dead() {
        set_errno(libc::EINTR);
        return true;
    }
    if S.on {
        let a = S.attempts;
        S.attempts += 1;
        if a < 32 && (S.enobufs_mask >> a) & 1 == 1 {
            set_errno(libc::ENOBUFS);
            return true;
        }
    }
    false
}
unsafe fn record_attempt(mut a: Att) -> ssize_t {
    let i = ATTS.len();
    if i >= MAXA {
        println!("REPLAY-ASSUMPTION-FAILED more than {} attempts", MAXA);
        libc::_exit(78);
    }
    let fail = i < 32 && (S.enobufs_mask >> i) & 1 == 1;
    a.ok = !fail;
    if SNAPSHOT_PAYLOAD && a.len > 0 {
        let n = a.len.min(PAY);
        core::ptr::copy_nonoverlapping(a.base as *const u8, a.pay.as_mut_ptr(), n);
    }
    ATTS.push(a);
    if fail {
        set_errno(libc::ENOBUFS);
        -1
    } else {
        (a.len + if a.has_hdr { 8 } else { 0 }) as ssize_t
    }
}
#[no_mangle]
extern "C" {
    fn __libc_malloc(size: size_t) -> *mut c_void;
}
/// requested sizes of recent small allocations: lets the send wrapper see a control buffer whose announced
/// length exceeds its allocation (what CBMC's exact-size objects show in the model; glibc's chunk slack hides
/// it from the kernel)
static mut MLOG: [(usize, usize); 128] = [(0, 0); 128];
static mut MLOG_I: usize = 0;
#[no_mangle]
pub unsafe extern "C" fn malloc(size: size_t) -> *mut c_void {
    let p = __libc_malloc(size);
    if size <= 4096 {
        MLOG[MLOG_I % 128] = (p as usize, size);
        MLOG_I += 1;
    }
    p
}
unsafe fn control_overread(msg: *const msghdr) -> bool {
    let m = &*msg;
    if m.msg_controllen == 0 {
        return false;
    }
    let mut k = 0;
    while k < 128 && k < MLOG_I {
        let (p, sz) = MLOG[(MLOG_I - 1 - k) % 128];
        if p == m.msg_control as usize {
            return (m.msg_controllen as usize) > sz;
        }
        k += 1;
    }
    false
}
#[no_mangle]
pub unsafe extern "C" fn sendmsg(fd: c_int, msg: *const msghdr, flags: c_int) -> ssize_t {
    if S.on && control_overread(msg) {
        println!("REPLAY-MEMORY: sendmsg is given msg_controllen larger than the allocation behind msg_control");
        libc::abort();
    }
    // the model refuses datagrams that cannot fit the (reported) send buffer before counting the
    // attempt; the real kernel decides that itself, after our gate.  Equivalent for every size the
    // crate can produce when the reported size is not larger than the real one.
    if S.on && S.sndbuf != 0 && !RECORD_ONLY {
        let m = &*msg;
        let mut total = 0usize;
        for i in 0..m.msg_iovlen {
            total += (*m.msg_iov.add(i as usize)).iov_len;
        }
        if total + 32 > S.sndbuf as usize {
            set_errno(libc::EMSGSIZE);
            return -1;
        }
    }
    if RECORD_ONLY {
        let m = &*msg;
        let iv0 = *m.msg_iov;
        let iv1 = *m.msg_iov.add(1);
        let mut a = Att { fd, hdr: *(iv0.iov_base as *const usize), has_hdr: true, base: iv1.iov_base as usize, len: iv1.iov_len, ..A0 };
        if m.msg_controllen > 0 {
            let c = m.msg_control as *const libc::cmsghdr;
            let n = ((*c).cmsg_len - 16) / 4;
            a.ctl_ok = m.msg_controllen >= 16
                && (*c).cmsg_level == libc::SOL_SOCKET
                && (*c).cmsg_type == libc::SCM_RIGHTS
                && (*c).cmsg_len >= 16
                && ((*c).cmsg_len - 16) % 4 == 0
                && m.msg_controllen == 16 + ((4 * n + 7) & !7);
            a.nfds = n;
            let p = (c as *const u8).add(16) as *const c_int;
            for i in 0..n.min(MAXF) {
                a.fds[i] = *p.add(i);
            }
        }
        return record_attempt(a);
    }
    if tx_gate() {
        return -1;
    }
    libc::syscall(libc::SYS_sendmsg, fd, msg, flags | libc::MSG_NOSIGNAL) as ssize_t
}
#[no_mangle]
pub unsafe extern "C" fn send(fd: c_int, buf: *const c_void, len: size_t, flags: c_int) -> ssize_t {
    if S.on && S.sndbuf != 0 && !RECORD_ONLY && len + 32 > S.sndbuf as usize {
        set_errno(libc::EMSGSIZE);
        return -1;
    }
    if RECORD_ONLY {
        return record_attempt(Att { fd, base: buf as usize, len, ..A0 });
    }
    if tx_gate() {
        return -1;
    }
    libc::syscall(libc::SYS_sendto, fd, buf, len, flags | libc::MSG_NOSIGNAL, 0usize, 0usize) as ssize_t
}
#[no_mangle]
pub unsafe extern "C" fn recvmsg(fd: c_int, msg: *mut msghdr, flags: c_int) -> ssize_t {
    if dead() {
        set_errno(libc::EINTR);
        return -1;
    }
    if S.on && would_block_now(fd) {
        blocks_forever();
    }
    EOF_RECVS = 0;
    let r = libc::syscall(libc::SYS_recvmsg, fd, msg, flags) as ssize_t;
    if S.on && r >= 0 {
        let m = &*msg;
        if m.msg_flags & libc::MSG_TRUNC != 0 {
            S.trunc_data = true;
        }
        if m.msg_flags & libc::MSG_CTRUNC != 0 {
            S.trunc_ctl = true;
        }
        if m.msg_controllen >= 16 {
            let c = m.msg_control as *const libc::cmsghdr;
            if (*c).cmsg_level == libc::SOL_SOCKET && (*c).cmsg_type == libc::SCM_RIGHTS {
                let n = ((*c).cmsg_len - 16) / 4;
                let p = (c as *const u8).add(16) as *const c_int;
                for i in 0..n {
                    track(*p.add(i));
                }
            }
        }
    }
    r
}
#[no_mangle]
pub unsafe extern "C" fn recv(fd: c_int, buf: *mut c_void, len: size_t, flags: c_int) -> ssize_t {
    if dead() {
        set_errno(libc::EINTR);
        return -1;
    }
    if S.on && would_block_now(fd) {
        blocks_forever();
    }
    // MSG_TRUNC makes the kernel report the real packet length, so truncation is observable
    let r = libc::syscall(libc::SYS_recvfrom, fd, buf, len, flags | libc::MSG_TRUNC, 0usize, 0usize) as ssize_t;
    if S.on {
        // end-of-stream answered by reading again and again = waiting for what can never arrive (as in the model)
        if r == 0 {
            EOF_RECVS += 1;
            if EOF_RECVS >= 3 {
                blocks_forever();
            }
        } else {
            EOF_RECVS = 0;
        }
    }
    if r > len as ssize_t {
        if S.on {
            S.trunc_data = true;
        }
        return len as ssize_t;
    }
    r
}
#[no_mangle]
pub unsafe extern "C" fn fcntl(fd: c_int, cmd: c_int, arg: c_long) -> c_int {
    if (cmd == libc::F_SETFL) && dead() {
        set_errno(libc::EINTR);
        return -1;
    }
    if cmd == libc::F_DUPFD || cmd == libc::F_DUPFD_CLOEXEC {
        if fd_create_fails() {
            return -1;
        }
        let r = libc::syscall(libc::SYS_fcntl, fd, cmd, arg) as c_int;
        track(r);
        return r;
    }
    libc::syscall(libc::SYS_fcntl, fd, cmd, arg) as c_int
}
#[no_mangle]
pub unsafe extern "C" fn poll(fds: *mut libc::pollfd, n: libc::nfds_t, timeout: c_int) -> c_int {
    if S.on {
        S.polls += 1;
        S.last_poll_timeout = timeout;
        if POLL_EINTR_ONCE {
            POLL_EINTR_ONCE = false;
            set_errno(libc::EINTR);
            return -1;
        }
        // single-threaded replay: nothing can arrive during the wait, so a zero-time poll gives
        // the same answer as waiting `timeout` would
        let r = libc::syscall(libc::SYS_poll, fds, n as c_long, 0 as c_long) as c_int;
        if r == 0 && timeout < 0 {
            blocks_forever();
        }
        if r != 0 && S.poll_times_out {
            println!("REPLAY-ASSUMPTION-FAILED poll_times_out while ready");
            libc::_exit(78);
        }
        return r;
    }
    libc::syscall(libc::SYS_poll, fds, n as c_long, timeout as c_long) as c_int
}
#[no_mangle]
pub unsafe extern "C" fn dup(fd: c_int) -> c_int {
    if fd_create_fails() {
        return -1;
    }
    let r = libc::syscall(libc::SYS_dup, fd) as c_int;
    track(r);
    r
}
unsafe fn next_sym(name: &[u8]) -> *mut c_void {
    let p = libc::dlsym(libc::RTLD_NEXT, name.as_ptr() as *const c_char);
    assert!(!p.is_null());
    p
}
#[no_mangle]
pub unsafe extern "C" fn shm_open(n: *const c_char, f: c_int, m: mode_t) -> c_int {
    if fd_create_fails() {
        return -1;
    }
    let real: unsafe extern "C" fn(*const c_char, c_int, mode_t) -> c_int = core::mem::transmute(next_sym(b"shm_open\0"));
    let r = real(n, f, m);
    track(r);
    r
}
#[no_mangle]
pub unsafe extern "C" fn socket(d: c_int, t: c_int, p: c_int) -> c_int {
    if fd_create_fails() {
        return -1;
    }
    let r = libc::syscall(libc::SYS_socket, d, t, p) as c_int;
    track(r);
    r
}
#[no_mangle]
pub unsafe extern "C" fn mmap(a: *mut c_void, len: size_t, prot: c_int, flags: c_int, fd: c_int, off: off_t) -> *mut c_void {
    let r = libc::syscall(libc::SYS_mmap, a, len, prot, flags, fd, off) as *mut c_void;
    if S.on && r != libc::MAP_FAILED && fd >= 0 && S.fds.as_ref().unwrap().contains_key(&fd) {
        S.maps.as_mut().unwrap().insert(r as usize, len);
    }
    r
}
#[no_mangle]
pub unsafe extern "C" fn munmap(a: *mut c_void, len: size_t) -> c_int {
    if S.on {
        if let Some(l) = S.maps.as_mut().unwrap().remove(&(a as usize)) {
            if l != len {
                S.bad_unmap = true;
            }
        }
    }
    libc::syscall(libc::SYS_munmap, a, len) as c_int
}
#[no_mangle]
pub unsafe extern "C" fn epoll_create1(f: c_int) -> c_int {
    if fd_create_fails() {
        return -1;
    }
    let r = libc::syscall(libc::SYS_epoll_create1, f) as c_int;
    track(r);
    r
}
static mut EPCTL_ADD_FAILS_ONCE: bool = false;
pub fn set_epoll_add_fails_once(b: bool) {
    unsafe { EPCTL_ADD_FAILS_ONCE = b }
}
#[no_mangle]
pub unsafe extern "C" fn epoll_ctl(ep: c_int, op: c_int, fd: c_int, ev: *mut libc::epoll_event) -> c_int {
    if S.on && op == libc::EPOLL_CTL_ADD && EPCTL_ADD_FAILS_ONCE {
        EPCTL_ADD_FAILS_ONCE = false;
        set_errno(libc::ENOSPC);
        return -1;
    }
    libc::syscall(libc::SYS_epoll_ctl, ep, op, fd, ev) as c_int
}
#[no_mangle]
pub unsafe extern "C" fn epoll_wait(ep: c_int, evs: *mut libc::epoll_event, max: c_int, to: c_int) -> c_int {
    if S.on {
        let w = S.waits;
        S.waits += 1;
        if S.eintr_at >= 0 && w == S.eintr_at {
            set_errno(libc::EINTR);
            return -1;
        }
        let r = libc::syscall(libc::SYS_epoll_wait, ep, evs, max, 0) as c_int;
        if r == 0 && to < 0 {
            blocks_forever();
        }
        return r;
    }
    libc::syscall(libc::SYS_epoll_wait, ep, evs, max, to) as c_int
}

// ------------------------------------------------------------------------------------------------
pub fn link() {
    unsafe {
        S.fds = Some(HashMap::new());
        S.pairs = Some(HashMap::new());
        S.seqs = Some(HashMap::new());
        S.maps = Some(HashMap::new());
        S.on = true;
    }
}
pub fn reset() {}
pub fn set_sndbuf(v: u32) {
    unsafe { S.sndbuf = v }
}
pub fn set_enobufs_mask(m: u32) {
    unsafe {
        S.enobufs_mask = m;
        S.attempts = 0;
        ATTS.clear();
    }
}
pub fn set_max_attempts(_n: usize) {}
pub fn set_record_only(b: bool) {
    unsafe { RECORD_ONLY = b }
}
pub fn att_count() -> usize {
    unsafe { ATTS.len() }
}
pub fn att(i: usize) -> Att {
    unsafe { ATTS[i] }
}
pub fn att_pay(i: usize) -> [u8; PAY] {
    unsafe { ATTS[i].pay }
}
pub fn pair_of(fd: c_int) -> c_int {
    unsafe { S.pairs.as_ref().unwrap().get(&fd).copied().unwrap_or(-1) }
}
pub fn create_seq(fd: c_int) -> i64 {
    unsafe { S.seqs.as_ref().unwrap().get(&fd).copied().unwrap_or(-1) }
}
pub fn seq_now() -> i64 {
    unsafe { SEQ }
}
pub fn is_open(fd: c_int) -> bool {
    unsafe { S.fds.as_ref().unwrap().contains_key(&fd) }
}
/// a real buffer of `len` bytes (contents irrelevant)
pub fn data_buf(len: usize) -> &'static [u8] {
    Box::leak(vec![0u8; len].into_boxed_slice())
}
pub fn set_crash_at(i: i32) {
    unsafe {
        S.crash_at = i;
        S.syscalls = 0;
    }
}
pub fn has_crashed() -> bool {
    unsafe { S.crash_at >= 0 && S.syscalls > S.crash_at }
}
pub fn set_fail_fd_at(i: i32) {
    unsafe {
        S.fail_fd_at = i;
        S.fd_creates = 0;
    }
}
pub fn set_block_is_violation(b: bool) {
    unsafe { S.block_is_violation = b }
}
/// make the kernel's "lowest free descriptor" be `n` for the next creation (n in 0..=2)
pub fn next_fd_is(n: c_int) {
    unsafe {
        libc::syscall(libc::SYS_close, n);
    }
}
pub fn set_cur(p: u8) {
    unsafe { S.cur = p }
}
pub fn set_poll_times_out(b: bool) {
    unsafe { S.poll_times_out = b }
}
static mut POLL_EINTR_ONCE: bool = false;
pub fn set_poll_eintr_once(b: bool) {
    unsafe { POLL_EINTR_ONCE = b }
}
pub fn set_eintr_at(i: i32) {
    unsafe {
        S.eintr_at = i;
        S.waits = 0;
    }
}
pub fn object_of(fd: c_int) -> i64 {
    unsafe {
        let mut st: libc::stat = core::mem::zeroed();
        if libc::syscall(libc::SYS_fstat, fd, &mut st as *mut libc::stat) != 0 {
            return -1;
        }
        ((st.st_dev as i64) << 40) ^ (st.st_ino as i64)
    }
}
pub fn nopen() -> usize {
    unsafe { S.fds.as_ref().unwrap().len() }
}
pub fn nmapped() -> usize {
    unsafe { S.maps.as_ref().unwrap().len() }
}
pub fn bad_close() -> bool {
    unsafe { S.bad_close }
}
pub fn bad_unmap() -> bool {
    unsafe { S.bad_unmap }
}
pub fn no_cloexec() -> bool {
    unsafe { S.no_cloexec }
}
pub fn trunc_data() -> bool {
    unsafe { S.trunc_data }
}
pub fn trunc_ctl() -> bool {
    unsafe { S.trunc_ctl }
}
pub fn model_bound_exceeded() -> bool {
    false
}
pub fn lost_wakeup() -> bool {
    false
}
pub fn attempts() -> u32 {
    unsafe { S.attempts }
}
pub fn syscalls() -> i32 {
    unsafe { S.syscalls }
}
pub fn polls() -> u32 {
    unsafe { S.polls }
}
pub fn last_poll_timeout() -> c_int {
    unsafe { S.last_poll_timeout }
}
pub fn is_nonblocking(fd: c_int) -> bool {
    unsafe {
        let fl = libc::syscall(libc::SYS_fcntl, fd, libc::F_GETFL, 0) as c_int;
        fl >= 0 && fl & libc::O_NONBLOCK != 0
    }
}
pub fn ledger_ok() -> bool {
    nopen() == 0 && nmapped() == 0 && !bad_close() && !bad_unmap()
}
