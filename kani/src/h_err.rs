//! C11 — no descriptor leaked, closed twice or inherited: the error paths and close-on-exec.
//! (The ledger epilogue of every other harness is C11's evidence for the success paths.)
use crate::env;
use crate::util::*;
use crate::harnesses;
#[cfg(not(kani))]
use crate::kani;
use ipc_channel::platform::{self, verif_hooks as ph, OsIpcSender, OsIpcSharedMemory};

fn end_ledger() {
    assert!(env::nopen() == 0, "C11: descriptor left open");
    assert!(env::nmapped() == 0, "C11: mapping left");
    assert!(!env::bad_close(), "C11: close of a descriptor that was not open");
    assert!(!env::model_bound_exceeded(), "MODEL-BOUND");
    crate::reach_end!();
}

harnesses! {
    // the system refuses a new descriptor while a channel is being created
    #[unwind(6)] fn err_channel_emfile() {
        setup(64);
        env::set_fail_fd_at(0);
        let r = platform::channel();
        assert!(r.is_err(), "C11: channel() must report the failure");
        core::mem::forget(r);
        end_ledger();
    }
    // ... while a multi-packet send creates its dedicated channel
    #[unwind(6)] fn err_send_dedicated_emfile() {
        setup(64);
        let (tx, rx) = platform::channel().unwrap();
        let d: [u8; 57] = kani::any();
        env::set_fail_fd_at(0);
        let r = tx.send(&d[..], vec![], vec![]);
        assert!(r.is_err(), "C11: send must report the failure");
        core::mem::forget(r);
        env::set_fail_fd_at(-1);
        // the channel remains usable and nothing of the failed message arrives
        tx.send(&d[..3], vec![], vec![]).unwrap();
        let (g, _, _) = rx.try_recv().unwrap();
        assert!(g.len() == 3 && g[2] == d[2], "C11/C13: channel unusable after a failed send");
        drop((g, tx, rx));
        end_ledger();
    }
    // connecting to a name nobody listens on
    #[unwind(6)] fn err_connect_fails() {
        setup(64);
        let r = OsIpcSender::connect("/nonexistent-ipc-channel-verif/socket".to_string());
        assert!(r.is_err(), "connect to a non-existent name fails");
        core::mem::forget(r);
        end_ledger();
    }
    // close-on-exec on everything the library creates: channels, regions, clones of regions
    #[unwind(10)] fn cloexec_created() {
        setup(64);
        let (tx, rx) = platform::channel().unwrap();
        let b: u8 = kani::any();
        let m = OsIpcSharedMemory::from_bytes(&[b, 2]);
        assert!(!env::no_cloexec(), "C11: channel or region descriptor created without close-on-exec");
        let c = m.clone();
        assert!(c[0] == b);
        assert!(!env::no_cloexec(), "C11: a cloned region's descriptor is inherited by child processes (no close-on-exec)");
        drop((c, m, tx, rx));
        end_ledger();
    }
    // ... and on everything it receives, whichever receive variant is used
    #[unwind(6)] fn cloexec_received() { cloexec_recv(0) }
    #[unwind(6)] fn cloexec_received_try() { cloexec_recv(1) }
    #[unwind(8)] fn cloexec_received_timeout() { cloexec_recv(2) }
}

fn cloexec_recv(mode: u8) {
    setup(64);
    env::set_block_is_violation(true);
    let (s_fd, r_fd) = raw_pair();
    let rx = rx_from_fd(r_fd);
    let (a, b) = raw_pair();
    let ded = raw_pair();
    let d: [u8; 25] = kani::any();
    assert!(inject(s_fd, Some(25), &d[..24], &[a, ded.1]) > 0);
    assert!(inject(ded.0, None, &d[24..], &[]) > 0);
    raw_close(a);
    raw_close(ded.0);
    raw_close(ded.1);
    let (g, ch, _) = match mode {
        0 => rx.recv().unwrap(),
        1 => rx.try_recv().unwrap(),
        _ => rx.try_recv_timeout(std::time::Duration::from_millis(5)).unwrap(),
    };
    assert!(g.len() == 25 && ch.len() == 1);
    assert!(!env::no_cloexec(), "C11: a received descriptor is inherited by child processes (no close-on-exec)");
    drop((g, ch, rx));
    raw_close(b);
    raw_close(s_fd);
    end_ledger();
}
