//! C03 — disconnection is reported exactly when no sender can exist any more.
//! Histories of handle operations on one channel (clone a sender handle into a slot, drop the
//! handle in a slot, send one byte through a slot), against the reference model the property
//! describes (number of live sender handles, FIFO of undelivered bytes).  After every
//! step a non-blocking receive must agree with the reference: next queued byte / Empty while a
//! handle lives / Disconnected otherwise — and never Disconnected before the queue is drained.
//! The operation sequences are CONCRETE per harness (a fully symbolic 3-step history ran out of
//! memory: 251 s symex, > 14 GB in the solver); the bytes sent are solver variables.
//! (Handles in transit inside messages: `transit_*` and `crash_*` harnesses.)
use crate::env;
use crate::util::*;
use crate::harnesses;
#[cfg(not(kani))]
use crate::kani;
use ipc_channel::platform::{self, OsIpcSender};

const SLOTS: usize = 3;

fn history<const N: usize>(ops: [(u8, usize, usize); N]) {
    let steps = N;
    let observe_each_step = true;
    setup(64);
    env::set_block_is_violation(true);
    let (tx, rx) = platform::channel().unwrap();
    let mut slot: [Option<OsIpcSender>; SLOTS] = [Some(tx), None, None];
    // reference model
    let mut live = 1usize;
    let mut q = [0u8; 8];
    let (mut qh, mut qt) = (0usize, 0usize);
    let mut s = 0;
    while s < steps {
        let (op, i, j) = ops[s];
        // an operation that does not apply in the current state is a no-op (a shorter history)
        let applies = slot[i].is_some() && (op != 0 || slot[j].is_none());
        if !applies {
            s += 1;
            continue;
        }
        if op == 0 {
            // clone slot i into an empty slot j
            let c = slot[i].as_ref().unwrap().clone();
            slot[j] = Some(c);
            live += 1;
        } else if op == 1 {
            drop(slot[i].take());
            live -= 1;
        } else {
            let b: u8 = kani::any();
            slot[i].as_ref().unwrap().send(&[b], vec![], vec![]).unwrap();
            q[qt] = b;
            qt += 1;
        }
        if observe_each_step || s + 1 == steps {
            let r = rx.try_recv();
            if qh < qt {
                assert!(matches!(r, Ok((ref d, _, _)) if d.len() == 1 && d[0] == q[qh]), "C03: a message sent before must be delivered before anything else is reported");
                qh += 1;
            } else if live > 0 {
                assert!(matches!(r, Err(ref e) if !e.channel_is_closed()), "C03: a connected but idle channel must not read as disconnected");
            } else {
                assert!(matches!(r, Err(ref e) if e.channel_is_closed()), "C03: no sender handle left and nothing queued: must read disconnected");
            }
            core::mem::forget(r);
        }
        s += 1;
    }
    let mut k = 0;
    while k < SLOTS {
        drop(slot[k].take());
        k += 1;
    }
    // everything that is still queued is dropped with the receiver
    drop(rx);
    assert!(env::nopen() == 0 && !env::bad_close(), "C11: ledger");
    crate::reach_end!();
}

harnesses! {
    // clone, drop the original, send through the clone, drop the clone
    #[unwind(8)] fn hist_clone_then_drop_original() { history([(0, 0, 1), (1, 0, 0), (2, 1, 0), (1, 1, 0)]) }
    // send twice, drop the only handle: both messages before the disconnection
    #[unwind(8)] fn hist_queue_then_drop() { history([(2, 0, 0), (2, 0, 0), (1, 0, 0), (1, 0, 0), (1, 0, 0)]) }
    // three handles, dropped in the order clone, original, clone, with traffic in between
    #[unwind(8)] fn hist_three_handles() { history([(0, 0, 1), (0, 1, 2), (1, 1, 0), (2, 2, 0), (1, 0, 0), (1, 2, 0)]) }
    // drop a clone immediately: the channel must stay connected
    #[unwind(8)] fn hist_clone_dropped_at_once() { history([(0, 0, 1), (1, 1, 0), (2, 0, 0), (0, 0, 2), (1, 0, 0)]) }
}
