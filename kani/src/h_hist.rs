//! C03 — disconnection is reported exactly when no sender can exist any more.
//! A SYMBOLIC history of handle operations on one channel (clone a sender handle into a slot,
//! drop the handle in a slot, send one byte through a slot), against the reference model the
//! property describes (number of live sender handles, FIFO of undelivered bytes).  After every
//! step a non-blocking receive must agree with the reference: next queued byte / Empty while a
//! handle lives / Disconnected otherwise — and never Disconnected before the queue is drained.
//! (Handles in transit inside messages: `transit_*` and `crash_*` harnesses.)
use crate::env;
use crate::util::*;
use crate::harnesses;
#[cfg(not(kani))]
use crate::kani;
use ipc_channel::platform::{self, OsIpcSender};

const SLOTS: usize = 3;

fn history(steps: usize, observe_each_step: bool) {
    setup(64);
    env::set_block_is_violation(true);
    let (tx, rx) = platform::channel().unwrap();
    let mut slot: [Option<OsIpcSender>; SLOTS] = [Some(tx), None, None];
    // reference model
    let mut live = 1usize;
    let mut q = [0u8; 8];
    let (mut qh, mut qt) = (0usize, 0usize);
    let mut s = 0;
    while s < steps {
        let op = any_u8_in(0, 2);
        let i = any_usize_in(0, SLOTS - 1);
        let j = any_usize_in(0, SLOTS - 1);
        // an operation that does not apply in the current state is a no-op (a shorter history)
        let applies = slot[i].is_some() && (op != 0 || slot[j].is_none());
        if !applies {
            s += 1;
            continue;
        }
        if op == 0 {
            // clone slot i into an empty slot j
            let c = slot[i].as_ref().unwrap().clone();
            slot[j] = Some(c);
            live += 1;
        } else if op == 1 {
            drop(slot[i].take());
            live -= 1;
        } else {
            let b: u8 = kani::any();
            slot[i].as_ref().unwrap().send(&[b], vec![], vec![]).unwrap();
            q[qt] = b;
            qt += 1;
        }
        if observe_each_step || s + 1 == steps {
            let r = rx.try_recv();
            if qh < qt {
                assert!(matches!(r, Ok((ref d, _, _)) if d.len() == 1 && d[0] == q[qh]), "C03: a message sent before must be delivered before anything else is reported");
                qh += 1;
            } else if live > 0 {
                assert!(matches!(r, Err(ref e) if !e.channel_is_closed()), "C03: a connected but idle channel must not read as disconnected");
            } else {
                assert!(matches!(r, Err(ref e) if e.channel_is_closed()), "C03: no sender handle left and nothing queued: must read disconnected");
            }
            core::mem::forget(r);
        }
        s += 1;
    }
    crate::witness!(live == 0, "WITNESS:ALL_DROPPED");
    crate::witness!(live >= 2, "WITNESS:CLONES_ALIVE");
    let mut k = 0;
    while k < SLOTS {
        drop(slot[k].take());
        k += 1;
    }
    // everything that is still queued is dropped with the receiver
    drop(rx);
    assert!(env::nopen() == 0 && !env::bad_close(), "C11: ledger");
    crate::reach_end!();
}

harnesses! {
    #[unwind(6)] fn hist_3_steps() { history(3, true) }
    #[unwind(7)] fn hist_4_steps() { history(4, true) }
    #[unwind(8)] fn hist_5_steps_final() { history(5, false) }
}
