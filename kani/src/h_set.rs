//! C06 — a receiver set reports every event of every member exactly once (sequential core).
//! The real OsIpcReceiverSet (mio + hashbrown) over the model's edge-triggered epoll; messages are
//! injected by plain system calls; the script (who gets what, when a sender goes away, when select
//! is called) is concrete per harness, payload bytes are solver variables.
use crate::env;
use crate::util::*;
use crate::harnesses;
#[cfg(not(kani))]
use crate::kani;
use ipc_channel::platform::{self, verif_hooks as ph, OsIpcReceiverSet, OsIpcSelectionResult};

fn end_ledger() {
    assert!(env::nopen() == 0, "C11: descriptor left open");
    assert!(!env::bad_close(), "C11: close of a descriptor that was not open");
    assert!(!env::lost_wakeup(), "C06: select would block although a member has an undelivered message or closure");
    assert!(!env::model_bound_exceeded(), "MODEL-BOUND");
    crate::reach_end!();
}

/// drain one select() result list into (id, first byte, len) triples / closed ids
fn take(results: Vec<OsIpcSelectionResult>, data: &mut Vec<(u64, u8, usize)>, closed: &mut Vec<u64>) {
    for r in results {
        match r {
            OsIpcSelectionResult::DataReceived(id, d, ch, sh) => {
                data.push((id, if d.is_empty() { 0 } else { d[0] }, d.len()));
                drop((ch, sh));
            },
            OsIpcSelectionResult::ChannelClosed(id) => closed.push(id),
        }
    }
}

/// std's OwnedFd (inside mio's selector) calls the variadic `fcntl(fd, F_GETFD)` with TWO arguments in
/// debug builds, which does not type-check against the model's three-parameter `fcntl` (kani-compiler
/// ICE); the debug check itself is irrelevant here and is stubbed out.
pub fn fd_is_open_stub(_fd: libc::c_int) {}

// two members; a 1-packet message for the first, a 2-packet message for the second, both queued
// before the first select; then the first member's sender goes away; then more traffic
#[cfg_attr(kani, kani::proof)]
#[cfg_attr(kani, kani::unwind(18))]
#[cfg_attr(kani, kani::stub(alloc::fmt::format, crate::util::fmt_stub))]
pub fn rxset_two_members() {
    {
        setup(64);
        env::set_block_is_violation(true); // select must not block while something is pending
        let (s1, r1) = raw_pair();
        let (s2, r2) = raw_pair();
        let mut set = OsIpcReceiverSet::new().unwrap();
        let id1 = set.add(rx_from_fd(r1)).unwrap();
        let id2 = set.add(rx_from_fd(r2)).unwrap();
        assert!(id1 != id2, "C06: two members share an id");
        let a: u8 = kani::any();
        let b: [u8; 25] = kani::any();
        assert!(inject(s1, Some(1), &[a], &[]) > 0);
        let ded = raw_pair();
        assert!(inject(s2, Some(25), &b[..24], &[ded.1]) > 0);
        assert!(inject(ded.0, None, &b[24..], &[]) > 0);
        raw_close(ded.0);
        raw_close(ded.1);
        let (mut data, mut closed) = (Vec::new(), Vec::new());
        take(set.select().unwrap(), &mut data, &mut closed);
        assert!(closed.is_empty(), "C06: closed event for a connected member");
        assert!(data.len() == 2, "C06: every pending message exactly once");
        let m1 = if data[0].0 == id1 { data[0] } else { data[1] };
        let m2 = if data[0].0 == id2 { data[0] } else { data[1] };
        assert!(m1.0 == id1 && m1.1 == a && m1.2 == 1, "C06: message of member 1 (id, contents)");
        assert!(m2.0 == id2 && m2.1 == b[0] && m2.2 == 25, "C06: multi-packet message of member 2 (id, contents)");
        // member 1: one more message, then its only sender goes away
        let c: u8 = kani::any();
        assert!(inject(s1, Some(1), &[c], &[]) > 0);
        raw_close(s1);
        let (mut data, mut closed) = (Vec::new(), Vec::new());
        take(set.select().unwrap(), &mut data, &mut closed);
        assert!(data.len() == 1 && data[0] == (id1, c, 1), "C06: last message of a member comes before its closed event");
        assert!(closed.len() == 1 && closed[0] == id1, "C06: exactly one closed event, for the disconnected member");
        // member 2 is still in the set and still served
        let d: u8 = kani::any();
        assert!(inject(s2, Some(1), &[d], &[]) > 0);
        let (mut data, mut closed) = (Vec::new(), Vec::new());
        take(set.select().unwrap(), &mut data, &mut closed);
        assert!(closed.is_empty() && data.len() == 1 && data[0] == (id2, d, 1), "C06: surviving member still served");
        raw_close(s2);
        // The set is deliberately NOT dropped: dropping mio's selector reaches std's OwnedFd debug check,
        // which calls the variadic fcntl with two arguments and makes kani-compiler ICE against the
        // model's three-parameter fcntl.  What must be left open is exactly the epoll descriptor and
        // the one member that is still in the set.
        core::mem::forget(set);
        assert!(env::nopen() == 2, "C11: descriptors left: expected the epoll descriptor and one member");
        assert!(!env::bad_close(), "C11: close of a descriptor that was not open");
        assert!(!env::lost_wakeup(), "C06: select would block although a member has an undelivered message or closure");
        assert!(!env::model_bound_exceeded(), "MODEL-BOUND");
        crate::reach_end!();
    }
}

#[cfg(not(kani))]
pub fn lookup(name: &str) -> Option<fn()> {
    if name == "rxset_two_members" {
        return Some(rxset_two_members as fn());
    }
    None
}
