//! C06 — a receiver set reports every event of every member exactly once (sequential core).
//! The real OsIpcReceiverSet (mio + hashbrown) over the model's edge-triggered epoll; messages are
//! injected by plain system calls; the script (who gets what, when a sender goes away, when select
//! is called) is concrete per harness, payload bytes are solver variables.
use crate::env;
use crate::util::*;
use crate::harnesses;
#[cfg(not(kani))]
use crate::kani;
use ipc_channel::platform::{self, verif_hooks as ph, OsIpcReceiverSet, OsIpcSelectionResult};

fn end_ledger() {
    assert!(env::nopen() == 0, "C11: descriptor left open");
    assert!(!env::bad_close(), "C11: close of a descriptor that was not open");
    assert!(!env::lost_wakeup(), "C06: select would block although a member has an undelivered message or closure");
    assert!(!env::model_bound_exceeded(), "MODEL-BOUND");
    crate::reach_end!();
}

/// What the selects of one harness reported: (id, first byte, length) per message, and closed ids.
/// Fixed-size: every element read back from the result vector (a heap-allocated enum) has a discriminant
/// that is not a constant for the symbolic execution, so both arms are explored for each element and a
/// growing Vec would get a symbolic length.
pub struct Got {
    pub nd: usize,
    pub d: [(u64, u8, usize); 4],
    pub nc: usize,
    pub c: [u64; 4],
}
impl Got {
    pub fn new() -> Got {
        Got { nd: 0, d: [(u64::MAX, 0, 0); 4], nc: 0, c: [u64::MAX; 4] }
    }
}
/// drain one select() result list.  The results are NOT dropped element by element: the drop glue of a
/// result switches on the same non-constant discriminant and would unroll the drop loops of two vectors of
/// non-constant length per element.  No descriptor is attached to any message of these scripts; had the crate
/// put a descriptor or a mapping into a result, the ledger at the end of the harness would be off by it.
fn take(results: Vec<OsIpcSelectionResult>, g: &mut Got) {
    let results = core::mem::ManuallyDrop::new(results);
    let n = results.len();
    assert!(n <= 4, "more results than the script can produce");
    let mut i = 0;
    while i < n {
        match &results[i] {
            OsIpcSelectionResult::DataReceived(id, d, _ch, _sh) => {
                assert!(g.nd < 4);
                g.d[g.nd] = (*id, if d.is_empty() { 0 } else { d[0] }, d.len());
                g.nd += 1;
            },
            OsIpcSelectionResult::ChannelClosed(id) => {
                assert!(g.nc < 4);
                g.c[g.nc] = *id;
                g.nc += 1;
            },
        }
        i += 1;
    }
}

/// select until `expected` events were reported, in at most 3 calls.  How a set batches pending events over
/// calls is its own business (the property speaks of REPEATED select calls); that it does not block while
/// something is pending is the model's job (`BLOCKS_FOREVER` / `LOST_WAKEUP`).  The number of calls depends on
/// result-vector lengths only, which are constants for the symbolic execution.
fn collect(set: &mut OsIpcReceiverSet, expected: usize, g: &mut Got) {
    let mut total = 0;
    let mut rounds = 0;
    while total < expected && rounds < 3 {
        let r = set.select().unwrap();
        total += r.len();
        take(r, g);
        rounds += 1;
    }
    assert!(total == expected, "C06: every pending event is reported exactly once (none missing, none extra)");
}

/// std's OwnedFd (inside mio's selector) calls the variadic `fcntl(fd, F_GETFD)` with TWO arguments in
/// debug builds, which does not type-check against the model's three-parameter `fcntl` (kani-compiler
/// ICE); the debug check itself is irrelevant here and is stubbed out.
pub fn fd_is_open_stub(_fd: libc::c_int) {}

// two members; a 1-packet message for the first, a 2-packet message for the second, both queued
// before the first select; then the first member's sender goes away; then more traffic
#[cfg_attr(kani, kani::proof)]
#[cfg_attr(kani, kani::unwind(18))]
#[cfg_attr(kani, kani::stub(alloc::fmt::format, crate::util::fmt_stub))]
pub fn rxset_two_members() {
    {
        setup(64);
        env::set_block_is_violation(true); // select must not block while something is pending
        let (s1, r1) = raw_pair();
        let (s2, r2) = raw_pair();
        let mut set = OsIpcReceiverSet::new().unwrap();
        let id1 = set.add(rx_from_fd(r1)).unwrap();
        let id2 = set.add(rx_from_fd(r2)).unwrap();
        assert!(id1 != id2, "C06: two members share an id");
        let a: u8 = kani::any();
        let b: [u8; 25] = kani::any();
        assert!(inject(s1, Some(1), &[a], &[]) > 0);
        let ded = raw_pair();
        assert!(inject(s2, Some(25), &b[..24], &[ded.1]) > 0);
        assert!(inject(ded.0, None, &b[24..], &[]) > 0);
        raw_close(ded.0);
        raw_close(ded.1);
        let mut g = Got::new();
        take(set.select().unwrap(), &mut g);
        assert!(g.nc == 0, "C06: closed event for a connected member");
        assert!(g.nd == 2, "C06: every pending message exactly once");
        let m1 = if g.d[0].0 == id1 { g.d[0] } else { g.d[1] };
        let m2 = if g.d[0].0 == id2 { g.d[0] } else { g.d[1] };
        assert!(m1.0 == id1 && m1.1 == a && m1.2 == 1, "C06: message of member 1 (id, contents)");
        assert!(m2.0 == id2 && m2.1 == b[0] && m2.2 == 25, "C06: multi-packet message of member 2 (id, contents)");
        // member 1: one more message, then its only sender goes away
        let c: u8 = kani::any();
        assert!(inject(s1, Some(1), &[c], &[]) > 0);
        raw_close(s1);
        let mut g = Got::new();
        take(set.select().unwrap(), &mut g);
        assert!(g.nd == 1 && g.d[0] == (id1, c, 1), "C06: last message of a member comes before its closed event");
        assert!(g.nc == 1 && g.c[0] == id1, "C06: exactly one closed event, for the disconnected member");
        // member 2 is still in the set and still served
        let d: u8 = kani::any();
        assert!(inject(s2, Some(1), &[d], &[]) > 0);
        let mut g = Got::new();
        take(set.select().unwrap(), &mut g);
        assert!(g.nc == 0 && g.nd == 1 && g.d[0] == (id2, d, 1), "C06: surviving member still served");
        raw_close(s2);
        // The set is deliberately NOT dropped: dropping mio's selector reaches std's OwnedFd debug check,
        // which calls the variadic fcntl with two arguments and makes kani-compiler ICE against the
        // model's three-parameter fcntl.  What must be left open is exactly the epoll descriptor and
        // the one member that is still in the set.
        core::mem::forget(set);
        assert!(env::nopen() == 2, "C11: descriptors left: expected the epoll descriptor and one member");
        assert!(!env::bad_close(), "C11: close of a descriptor that was not open");
        assert!(!env::lost_wakeup(), "C06: select would block although a member has an undelivered message or closure");
        assert!(!env::model_bound_exceeded(), "MODEL-BOUND");
        crate::reach_end!();
    }
}

/// io::Error packs the OS error code into pointer bits; CBMC does not constant-fold through that representation
/// and `kind()` on a fresh EINTR error forks over every ErrorKind (the harness ran out of memory).  Under Kani
/// `io::Error::kind` is therefore answered from the model's errno: the value every io::Error::last_os_error()
/// of these scripts was built from.
#[cfg(kani)]
pub fn io_kind_stub(_e: &std::io::Error) -> std::io::ErrorKind {
    if env::errno() == libc::EINTR {
        std::io::ErrorKind::Interrupted
    } else if env::errno() == libc::EAGAIN {
        std::io::ErrorKind::WouldBlock
    } else {
        std::io::ErrorKind::Other
    }
}
#[cfg_attr(kani, kani::proof)]
#[cfg_attr(kani, kani::unwind(14))]
#[cfg_attr(kani, kani::stub(alloc::fmt::format, crate::util::fmt_stub))]
#[cfg_attr(kani, kani::stub(std::io::Error::kind, crate::h_set::io_kind_stub))]
pub fn rxset_one_member_eintr() {
    one_member(true)
}

#[cfg(kani)]
pub fn io_raw_os_error_stub(_e: &std::io::Error) -> Option<i32> {
    Some(env::errno())
}
/// C11/C06: registration with the poller is refused (ENOSPC): `add` fails, and the receiver it was given — which
/// it consumed — must not stay open behind the caller's back; the set keeps working.
#[cfg_attr(kani, kani::proof)]
#[cfg_attr(kani, kani::unwind(14))]
#[cfg_attr(kani, kani::stub(alloc::fmt::format, crate::util::fmt_stub))]
#[cfg_attr(kani, kani::stub(std::io::Error::kind, crate::h_set::io_kind_stub))]
#[cfg_attr(kani, kani::stub(std::io::Error::raw_os_error, crate::h_set::io_raw_os_error_stub))]
pub fn rxset_add_refused() {
    setup(64);
    env::set_block_is_violation(true);
    let (s1, r1) = raw_pair();
    let (s2, r2) = raw_pair();
    let mut set = OsIpcReceiverSet::new().unwrap();
    let id1 = set.add(rx_from_fd(r1)).unwrap();
    env::set_epoll_add_fails_once(true);
    let r = set.add(rx_from_fd(r2));
    assert!(r.is_err(), "a refused registration must be reported");
    core::mem::forget(r);
    assert!(!env::is_open(r2), "C11: add() failed but kept the receiver's descriptor open (nobody owns it any more)");
    let v: u8 = kani::any();
    assert!(inject(s1, Some(1), &[v], &[]) > 0);
    let mut g = Got::new();
    collect(&mut set, 1, &mut g);
    assert!(g.nd == 1 && g.d[0] == (id1, v, 1), "C06: the set keeps serving its members after a refused add");
    raw_close(s1);
    raw_close(s2);
    set_end(set, 2);
}

/// The set is deliberately NOT dropped (see rxset_two_members); `left` = the epoll descriptor + members still in it.
fn set_end(set: OsIpcReceiverSet, left: usize) {
    core::mem::forget(set);
    assert!(env::nopen() == left, "C11: descriptors left: expected the epoll descriptor and the members still in the set");
    assert!(!env::bad_close(), "C11: close of a descriptor that was not open");
    assert!(!env::lost_wakeup(), "C06: select would block although a member has an undelivered message or closure");
    assert!(!env::model_bound_exceeded(), "MODEL-BOUND");
    crate::reach_end!();
}

/// one member: a message queued BEFORE add, one after; then the sender goes away; optionally the first
/// wait is interrupted by a signal
fn one_member(eintr: bool) {
    setup(64);
    env::set_block_is_violation(true);
    let (s1, r1) = raw_pair();
    let a: u8 = kani::any();
    assert!(inject(s1, Some(1), &[a], &[]) > 0);
    let mut set = OsIpcReceiverSet::new().unwrap();
    let id1 = set.add(rx_from_fd(r1)).unwrap();
    if eintr {
        env::set_eintr_at(0);
    }
    let mut g = Got::new();
    collect(&mut set, 1, &mut g);
    assert!(g.nc == 0 && g.nd == 1 && g.d[0] == (id1, a, 1), "C06: message queued before add is reported once");
    let c: u8 = kani::any();
    assert!(inject(s1, Some(1), &[c], &[]) > 0);
    raw_close(s1);
    let mut g = Got::new();
    collect(&mut set, 2, &mut g);
    assert!(g.nd == 1 && g.d[0] == (id1, c, 1), "C06: last message of a member comes before its closed event");
    assert!(g.nc == 1 && g.c[0] == id1, "C06: exactly one closed event, for the disconnected member");
    set_end(set, 1);
}

/// C12 observed through a receiver set: member 1 has a complete message, member 2's sender died after `sent`
/// packets of a 3-packet message (no surviving handle).  select must hand out member 1's message (its send
/// had returned) and must not fail as a whole; member 2 is reported closed, never as a message.
fn crash_select(sent: usize) {
    setup(64);
    env::set_block_is_violation(true);
    let (s1, r1) = raw_pair();
    let (s2, r2) = raw_pair();
    let mut set = OsIpcReceiverSet::new().unwrap();
    let id1 = set.add(rx_from_fd(r1)).unwrap();
    let id2 = set.add(rx_from_fd(r2)).unwrap();
    assert!(id1 != id2, "C06: two members share an id");
    let a: u8 = kani::any();
    assert!(inject(s1, Some(1), &[a], &[]) > 0);
    let b: [u8; 57] = kani::any();
    let ded = raw_pair();
    assert!(inject(s2, Some(57), &b[..24], &[ded.1]) > 0);
    if sent >= 2 {
        assert!(inject(ded.0, None, &b[24..56], &[]) > 0);
    }
    // the sending process dies: everything it owned is closed
    raw_close(s2);
    raw_close(ded.0);
    raw_close(ded.1);
    let mut g = Got::new();
    // both members are ready before the wait: two events (a message, a closure) over at most 3 calls
    let mut total = 0;
    let mut rounds = 0;
    while total < 2 && rounds < 3 {
        let r = set.select();
        assert!(r.is_ok(), "C12: a sender dying mid-message made select fail as a whole (messages of other members are lost, a router stops)");
        let r = r.unwrap();
        total += r.len();
        take(r, &mut g);
        rounds += 1;
    }
    assert!(g.nd == 1 && g.d[0] == (id1, a, 1), "C12: a message whose send had returned must still be delivered intact (and the interrupted one never as a message)");
    assert!(g.nc == 1 && g.c[0] == id2, "C12: the member whose only sender died is reported closed, once");
    raw_close(s1);
    set_end(set, 2);
}

/// three members ready at once (a closure among them); a member added while traffic flows, with two
/// messages already queued on it: both are reported, in send order, under the id `add` returned
fn three_ready_then_add() {
    setup(64);
    env::set_block_is_violation(true);
    let (s1, r1) = raw_pair();
    let (s2, r2) = raw_pair();
    let (s3, r3) = raw_pair();
    let mut set = OsIpcReceiverSet::new().unwrap();
    let id1 = set.add(rx_from_fd(r1)).unwrap();
    let id2 = set.add(rx_from_fd(r2)).unwrap();
    let id3 = set.add(rx_from_fd(r3)).unwrap();
    assert!(id1 != id2 && id1 != id3 && id2 != id3, "C06: two members share an id");
    let v: [u8; 4] = kani::any();
    assert!(inject(s1, Some(1), &[v[0]], &[]) > 0);
    assert!(inject(s3, Some(1), &[v[1]], &[]) > 0);
    raw_close(s2); // member 2: closure only
    let mut g = Got::new();
    collect(&mut set, 3, &mut g);
    assert!(g.nd == 2 && g.nc == 1 && g.c[0] == id2, "C06: three ready members: two messages and one closure, each once");
    let m1 = if g.d[0].0 == id1 { g.d[0] } else { g.d[1] };
    let m3 = if g.d[0].0 == id3 { g.d[0] } else { g.d[1] };
    assert!(m1 == (id1, v[0], 1) && m3 == (id3, v[1], 1), "C06: message tagged with the id add returned for its member");
    // a fourth receiver joins while the others are live; two messages are already queued on it
    let (s4, r4) = raw_pair();
    assert!(inject(s4, Some(1), &[v[2]], &[]) > 0);
    assert!(inject(s4, Some(1), &[v[3]], &[]) > 0);
    let id4 = set.add(rx_from_fd(r4)).unwrap();
    assert!(id4 != id1 && id4 != id3, "C06: a new member got the id of a live one");
    let mut g = Got::new();
    collect(&mut set, 2, &mut g);
    assert!(g.nc == 0 && g.nd == 2 && g.d[0] == (id4, v[2], 1) && g.d[1] == (id4, v[3], 1), "C06: traffic queued before add is reported, in send order");
    raw_close(s1);
    raw_close(s3);
    raw_close(s4);
    set_end(set, 4);
}

/// two members, a 1-packet message next to a 2-packet one, both pending before one select
fn two_multi() {
    setup(64);
    env::set_block_is_violation(true);
    let (s1, r1) = raw_pair();
    let (s2, r2) = raw_pair();
    let mut set = OsIpcReceiverSet::new().unwrap();
    let id1 = set.add(rx_from_fd(r1)).unwrap();
    let id2 = set.add(rx_from_fd(r2)).unwrap();
    assert!(id1 != id2, "C06: two members share an id");
    let a: u8 = kani::any();
    let b: [u8; 25] = kani::any();
    assert!(inject(s1, Some(1), &[a], &[]) > 0);
    let ded = raw_pair();
    assert!(inject(s2, Some(25), &b[..24], &[ded.1]) > 0);
    assert!(inject(ded.0, None, &b[24..], &[]) > 0);
    raw_close(ded.0);
    raw_close(ded.1);
    let mut g = Got::new();
    collect(&mut set, 2, &mut g);
    assert!(g.nc == 0, "C06: closed event for a connected member");
    assert!(g.nd == 2, "C06: every pending message exactly once");
    let m1 = if g.d[0].0 == id1 { g.d[0] } else { g.d[1] };
    let m2 = if g.d[0].0 == id2 { g.d[0] } else { g.d[1] };
    assert!(m1 == (id1, a, 1), "C06: message of member 1 (id, contents)");
    assert!(m2 == (id2, b[0], 25), "C06: multi-packet message of member 2 (id, contents)");
    raw_close(s1);
    raw_close(s2);
    set_end(set, 3);
}

/// a multi-packet message with a small one queued BEHIND it on the same member before the wait: the member is
/// announced once, so it must be drained past the reassembled message
fn multi_then_small() {
    setup(64);
    env::set_block_is_violation(true);
    let (s1, r1) = raw_pair();
    let mut set = OsIpcReceiverSet::new().unwrap();
    let id1 = set.add(rx_from_fd(r1)).unwrap();
    let b: [u8; 25] = kani::any();
    let c: u8 = kani::any();
    let ded = raw_pair();
    assert!(inject(s1, Some(25), &b[..24], &[ded.1]) > 0);
    assert!(inject(ded.0, None, &b[24..], &[]) > 0);
    raw_close(ded.0);
    raw_close(ded.1);
    assert!(inject(s1, Some(1), &[c], &[]) > 0);
    let mut g = Got::new();
    collect(&mut set, 2, &mut g);
    assert!(g.nc == 0 && g.nd == 2 && g.d[0] == (id1, b[0], 25) && g.d[1] == (id1, c, 1), "C06: the message queued behind a multi-packet one is reported too, in send order");
    raw_close(s1);
    set_end(set, 2);
}

/// a member closes (nothing queued); afterwards the other member is still served under its own id
fn closed_then_other() {
    setup(64);
    env::set_block_is_violation(true);
    let (s1, r1) = raw_pair();
    let (s2, r2) = raw_pair();
    let mut set = OsIpcReceiverSet::new().unwrap();
    let id1 = set.add(rx_from_fd(r1)).unwrap();
    let id2 = set.add(rx_from_fd(r2)).unwrap();
    raw_close(s1);
    let mut g = Got::new();
    collect(&mut set, 1, &mut g);
    assert!(g.nd == 0 && g.nc == 1 && g.c[0] == id1, "C06: exactly one closed event, for the disconnected member only");
    let d: u8 = kani::any();
    assert!(inject(s2, Some(1), &[d], &[]) > 0);
    let mut g = Got::new();
    collect(&mut set, 1, &mut g);
    assert!(g.nc == 0 && g.nd == 1 && g.d[0] == (id2, d, 1), "C06: surviving member still served, no second closed event");
    raw_close(s2);
    set_end(set, 2);
}

/// a receiver with two messages already queued joins a set that has an idle member
fn add_queued_two() {
    setup(64);
    env::set_block_is_violation(true);
    let (s1, r1) = raw_pair();
    let mut set = OsIpcReceiverSet::new().unwrap();
    let id1 = set.add(rx_from_fd(r1)).unwrap();
    let (s4, r4) = raw_pair();
    let v: [u8; 2] = kani::any();
    assert!(inject(s4, Some(1), &[v[0]], &[]) > 0);
    assert!(inject(s4, Some(1), &[v[1]], &[]) > 0);
    let id4 = set.add(rx_from_fd(r4)).unwrap();
    assert!(id4 != id1, "C06: a new member got the id of a live one");
    let mut g = Got::new();
    collect(&mut set, 2, &mut g);
    assert!(g.nc == 0 && g.nd == 2 && g.d[0] == (id4, v[0], 1) && g.d[1] == (id4, v[1], 1), "C06: traffic queued before add is reported, in send order");
    raw_close(s1);
    raw_close(s4);
    set_end(set, 3);
}

/// a member is removed (its channel closed), then a new one is added: its id differs from the live member's
fn id_after_close() {
    setup(64);
    env::set_block_is_violation(true);
    let (s1, r1) = raw_pair();
    let (s2, r2) = raw_pair();
    let mut set = OsIpcReceiverSet::new().unwrap();
    let id1 = set.add(rx_from_fd(r1)).unwrap();
    let id2 = set.add(rx_from_fd(r2)).unwrap();
    raw_close(s1);
    let mut g = Got::new();
    collect(&mut set, 1, &mut g);
    assert!(g.nd == 0 && g.nc == 1 && g.c[0] == id1, "C06: exactly one closed event, for the disconnected member only");
    // two more join (ids handed out after a removal must not walk over the id of a member that is still in)
    let (s3, r3) = raw_pair();
    let id3 = set.add(rx_from_fd(r3)).unwrap();
    let (s4, r4) = raw_pair();
    let id4 = set.add(rx_from_fd(r4)).unwrap();
    assert!(id3 != id2 && id4 != id2 && id4 != id3, "C06: two members that are in the set at the same time share an id");
    let v: u8 = kani::any();
    assert!(inject(s4, Some(1), &[v], &[]) > 0);
    let mut g = Got::new();
    collect(&mut set, 1, &mut g);
    assert!(g.nc == 0 && g.nd == 1 && g.d[0] == (id4, v, 1), "C06: message tagged with the id add returned for its member");
    raw_close(s2);
    raw_close(s3);
    raw_close(s4);
    set_end(set, 4);
}

/// a backlog of 65 messages on one member before the wait (more than any per-wake-up batch a
/// "fairness" cap would allow): edge-triggered polling announces it once, so one select must drain it all;
/// then the closure.  Needs the `bigq` configuration of the model (70 packets in flight).
#[cfg(any(not(kani), feature = "bigq"))]
#[cfg_attr(kani, kani::proof)]
#[cfg_attr(kani, kani::unwind(70))]
#[cfg_attr(kani, kani::stub(alloc::fmt::format, crate::util::fmt_stub))]
pub fn rxset_backlog_65() {
    const N: usize = 65;
    setup(64);
    env::set_block_is_violation(true);
    let (s1, r1) = raw_pair();
    let mut set = OsIpcReceiverSet::new().unwrap();
    let id1 = set.add(rx_from_fd(r1)).unwrap();
    let last: u8 = kani::any();
    let mut i = 0;
    while i < N {
        assert!(inject(s1, Some(1), &[if i == N - 1 { last } else { i as u8 }], &[]) > 0);
        i += 1;
    }
    raw_close(s1);
    // everything that was pending, then the closure, over at most 4 calls (batching is the set's business)
    let mut total = 0;
    let mut rounds = 0;
    while total < N + 1 && rounds < 4 {
        let res = core::mem::ManuallyDrop::new(set.select().unwrap());
        let n = res.len();
        if total <= N - 1 && N - 1 < total + n {
            match &res[N - 1 - total] {
                OsIpcSelectionResult::DataReceived(id, d, _, _) => assert!(*id == id1 && d.len() == 1 && d[0] == last, "C06: last message of the backlog (id, contents, order)"),
                OsIpcSelectionResult::ChannelClosed(_) => assert!(false, "C06: closed event before the member's last message"),
            }
        }
        if total <= N && N < total + n {
            assert!(matches!(&res[N - total], OsIpcSelectionResult::ChannelClosed(i) if *i == id1), "C06: exactly one closed event after the last message");
        }
        total += n;
        rounds += 1;
    }
    assert!(total == N + 1, "C06: a backlog announced once (edge-triggered) must be drained completely, then exactly one closed event");
    set_end(set, 1);
}

/// C12 through a set, WITH a surviving sender handle of the crashed member's channel
fn crash_select_surv() {
    setup(64);
    env::set_block_is_violation(true);
    let (s2, r2) = raw_pair();
    let keep = unsafe { libc::fcntl(s2, libc::F_DUPFD_CLOEXEC, 0) };
    let mut set = OsIpcReceiverSet::new().unwrap();
    let id2 = set.add(rx_from_fd(r2)).unwrap();
    let b: [u8; 57] = kani::any();
    let ded = raw_pair();
    assert!(inject(s2, Some(57), &b[..24], &[ded.1]) > 0);
    raw_close(s2);
    raw_close(ded.0);
    raw_close(ded.1);
    let mut g = Got::new();
    let r = set.select();
    assert!(r.is_ok(), "C12: a sender dying mid-message made select fail as a whole");
    take(r.unwrap(), &mut g);
    assert!(g.nd == 0, "C12: an interrupted message was delivered as a message");
    assert!(g.nc == 0, "C12: member reported closed (and removed from the set) although another sender survives");
    let c: u8 = kani::any();
    assert!(inject(keep, Some(1), &[c], &[]) > 0);
    let mut g = Got::new();
    take(set.select().unwrap(), &mut g);
    assert!(g.nd == 1 && g.d[0] == (id2, c, 1), "C12: messages from surviving senders keep arriving");
    raw_close(keep);
    set_end(set, 2);
}

/// the same through the ipc layer: IpcReceiverSet, typed channel, OpaqueIpcMessage::to
fn ipc_set() {
    use ipc_channel::ipc::{self, IpcReceiverSet, IpcSelectionResult};
    setup(64);
    env::set_block_is_violation(true);
    let (tx, rx) = ipc::channel::<u8>().unwrap();
    let mut set = IpcReceiverSet::new().unwrap();
    let id = set.add(rx).unwrap();
    let v: u8 = kani::any();
    tx.send(v).unwrap();
    let res = core::mem::ManuallyDrop::new(set.select().unwrap());
    assert!(res.len() == 1, "C06: one message, one result");
    match &res[0] {
        IpcSelectionResult::MessageReceived(i, _m) => assert!(*i == id, "C06: id"),
        IpcSelectionResult::ChannelClosed(_) => assert!(false, "C06: closed event for a connected member"),
    }
    let first = unsafe { core::ptr::read(&res[0]) };
    if let IpcSelectionResult::MessageReceived(_, m) = first {
        let got = m.to::<u8>();
        assert!(matches!(got, Ok(x) if x == v), "C06/C01: value received through the set");
        core::mem::forget(got);
    }
    drop(tx);
    let res = core::mem::ManuallyDrop::new(set.select().unwrap());
    assert!(res.len() == 1 && matches!(&res[0], IpcSelectionResult::ChannelClosed(i) if *i == id), "C06: closed event once all senders are gone");
    core::mem::forget(set);
    assert!(env::nopen() == 1, "C11: descriptors left: expected the epoll descriptor only");
    assert!(!env::bad_close() && !env::lost_wakeup() && !env::model_bound_exceeded());
    crate::reach_end!();
}

harnesses! {
    #[unwind(14)] fn rxset_three_ready_then_add() { three_ready_then_add() }
    #[unwind(14)] fn rxset_crash_after_1_surv() { crash_select_surv() }
    #[unwind(14)] fn rxset_ipc() { ipc_set() }
    #[unwind(14)] fn rxset_id_after_close() { id_after_close() }
    #[unwind(14)] fn rxset_two_multi() { two_multi() }
    #[unwind(14)] fn rxset_multi_then_small() { multi_then_small() }
    #[unwind(14)] fn rxset_closed_then_other() { closed_then_other() }
    #[unwind(14)] fn rxset_add_queued_two() { add_queued_two() }
    #[unwind(14)] fn rxset_one_member() { one_member(false) }
    #[unwind(14)] fn rxset_crash_after_1() { crash_select(1) }
    #[unwind(14)] fn rxset_crash_after_2() { crash_select(2) }
}

#[cfg(not(kani))]
pub fn lookup2(name: &str) -> Option<fn()> {
    if name == "rxset_two_members" {
        return Some(rxset_two_members as fn());
    }
    if name == "rxset_add_refused" {
        return Some(rxset_add_refused as fn());
    }
    if name == "rxset_backlog_65" {
        return Some(rxset_backlog_65 as fn());
    }
    if name == "rxset_one_member_eintr" {
        return Some(rxset_one_member_eintr as fn());
    }
    lookup(name)
}
