//! C15 (sending side) — needs the `bigfd` configuration of the recording kernel.
use crate::h_send::send_many;
use crate::harnesses;

harnesses! {
    #[unwind(72)] fn send_many_63_single() { send_many(63, 1, 64, 0) }
    #[unwind(72)] fn send_many_64_single() { send_many(64, 1, 64, 0) }
    #[unwind(72)] fn send_many_65_single() { send_many(65, 1, 64, 0) }
    #[unwind(72)] fn send_many_63_frag() { send_many(63, 25, 64, 0) }
    #[unwind(72)] fn send_many_64_frag() { send_many(64, 25, 64, 0) }
    #[unwind(72)] fn send_many_64_enobufs() { send_many(64, 3000, 8192, 1) }
}
