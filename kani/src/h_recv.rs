//! Receive side of C04 / C12 / C15 / C09: the real `recv` (and try_recv) fed by packets the
//! harness injects with plain system calls, exactly as `send_plan` shows the real sender emits
//! them (header word = total length; user descriptors in value order; the dedicated fragment
//! channel last, iff something follows; follow-ups on that channel).  Descriptors are constants
//! here, payload bytes are solver variables.
use crate::env;
use crate::util::*;
use crate::harnesses;
#[cfg(not(kani))]
use crate::kani;
use ipc_channel::platform::{self, verif_hooks as ph, OsIpcSharedMemory};
use libc::c_int;

fn end_ledger() {
    assert!(env::nopen() == 0, "C11: descriptor left open");
    assert!(env::nmapped() == 0, "C11: mapping left");
    assert!(!env::bad_close(), "C11: close of a descriptor that was not open");
    assert!(!env::model_bound_exceeded(), "MODEL-BOUND");
    crate::reach_end!();
}

/// C04: `NS` sockets + `nreg` regions attached to a message of L bytes sent as `packets` packets
fn attachments<const L: usize, const NS: usize>(nreg: usize) {
    setup(64);
    env::set_block_is_violation(true);
    let (s_fd, r_fd) = raw_pair(); // the channel under test: s = sender side, r = receiver side
    let rx = rx_from_fd(r_fd);
    let mut fds = [-1 as c_int; 8];
    let mut peers = [-1 as c_int; NS];
    let mut objs = [0i64; 8];
    let mut n = 0;
    while n < NS {
        let (a, b) = raw_pair();
        fds[n] = a;
        peers[n] = b;
        objs[n] = obj(a);
        n += 1;
    }
    let mut regs = Vec::new();
    let mut k = 0;
    while k < nreg {
        let r = OsIpcSharedMemory::from_bytes(&[40 + k as u8, 1, 2]);
        fds[n] = ph::shared_memory_fd(&r);
        objs[n] = obj(fds[n]);
        regs.push(r);
        n += 1;
        k += 1;
    }
    let data: [u8; L] = kani::any();
    let fragmented = L > 24;
    let mut ded = (-1, -1);
    if fragmented {
        ded = raw_pair(); // .0 = sender's end, .1 = the receiving end that travels
        fds[n] = ded.1;
        n += 1;
    }
    let first = if fragmented { 24 } else { L };
    assert!(inject(s_fd, Some(L), &data[..first], &fds[..n]) > 0);
    // the sender's copies go away, as they do when send() returns
    let mut i = 0;
    while i < NS {
        raw_close(fds[i]);
        i += 1;
    }
    drop(regs);
    if fragmented {
        raw_close(ded.1);
        let mut pos = first;
        while pos < L {
            let end = if pos + 32 < L { pos + 32 } else { L };
            assert!(inject(ded.0, None, &data[pos..end], &[]) > 0);
            pos = end;
        }
        raw_close(ded.0);
    }
    let (got, mut ch, sh) = rx.recv().unwrap();
    assert!(got.len() == L, "C01: reassembled length");
    if L > 0 {
        let i = any_usize_in(0, L - 1);
        assert!(got[i] == data[i], "C01: reassembled bytes");
    }
    assert!(ch.len() == NS, "C04: number of channels (the fragment channel must not be handed out)");
    assert!(sh.len() == nreg, "C04: number of regions");
    let mut i = 0;
    while i < NS {
        let r = ch[i].to_receiver();
        assert!(obj(ph::receiver_fd(&r)) == objs[i], "C04: channel at position i is not the one attached there");
        // and it works: a byte sent from the other end arrives
        let b: u8 = kani::any();
        assert!(inject(peers[i], Some(1), &[b], &[]) > 0);
        let (d, _, _) = r.try_recv().unwrap();
        assert!(d.len() == 1 && d[0] == b, "C04: received endpoint is not connected to its channel");
        raw_close(peers[i]);
        i += 1;
    }
    let mut k = 0;
    while k < nreg {
        assert!(sh[k].len() == 3 && sh[k][0] == 40 + k as u8, "C04/C05: region at position k");
        k += 1;
    }
    drop((got, ch, sh, rx));
    raw_close(s_fd);
    end_ledger();
}

/// C12: the sender dies after `sent` of the packets of a 3-packet message (57 bytes: 24+32+1)
/// got out; `survivor`: another process still holds a sender handle of the same channel and sends
/// one small message afterwards.
fn crash(sent: usize, survivor: bool, with_att: bool, use_try: bool) {
    setup(64);
    env::set_block_is_violation(true); // the receiver must never wait for ever
    let (s_fd, r_fd) = raw_pair();
    let rx = rx_from_fd(r_fd);
    let s2 = if survivor { unsafe { libc::fcntl(s_fd, libc::F_DUPFD_CLOEXEC, 0) } } else { -1 };
    let data: [u8; 57] = kani::any();
    let ded = raw_pair();
    let att = raw_pair();
    // an earlier complete message, which must survive whatever happens to the next one
    let early: u8 = kani::any();
    assert!(inject(s_fd, Some(1), &[early], &[]) > 0);
    let bounds = [0usize, 24, 56, 57];
    if sent >= 1 {
        let fds = if with_att { [att.0, ded.1] } else { [ded.1, -1] };
        assert!(inject(s_fd, Some(57), &data[..24], &fds[..if with_att { 2 } else { 1 }]) > 0);
    }
    let mut p = 1;
    while p < sent {
        assert!(inject(ded.0, None, &data[bounds[p]..bounds[p + 1]], &[]) > 0);
        p += 1;
    }
    // process exit: every descriptor the sender owned is closed
    raw_close(s_fd);
    raw_close(ded.0);
    raw_close(ded.1);
    raw_close(att.0);
    let (g0, _, _) = rx.recv().unwrap();
    assert!(g0.len() == 1 && g0[0] == early, "C12: a message whose send had returned must still be delivered intact");
    let r = if use_try { rx.try_recv() } else { rx.recv() };
    match r {
        Ok((got, ch, _)) => {
            // delivered as a message => must be the complete original
            assert!(sent == 3, "C12: an interrupted message was delivered as complete");
            assert!(got.len() == 57, "C12: shortened payload presented as complete");
            let i = any_usize_in(0, 56);
            assert!(got[i] == data[i], "C12: mixed payload");
            assert!(ch.len() == if with_att { 1 } else { 0 });
            drop(ch);
        },
        Err(e) => {
            assert!(sent < 3, "C12: a completely sent message was lost");
            if survivor {
                // told 'disconnected' only if no other sender handle survives
                assert!(!e.channel_is_closed(), "C12: channel reported closed although another sender survives");
            }
        },
    }
    if survivor {
        let b: u8 = kani::any();
        assert!(inject(s2, Some(1), &[b], &[]) > 0);
        let (g, _, _) = rx.recv().unwrap();
        assert!(g.len() == 1 && g[0] == b, "C12: messages from surviving senders keep arriving");
        raw_close(s2);
    } else if sent == 3 || sent == 0 {
        let r2 = rx.try_recv();
        assert!(matches!(r2, Err(ref e) if e.channel_is_closed()), "C12/C03: no sender left => disconnected");
        core::mem::forget(r2);
    }
    raw_close(att.1);
    drop(rx);
    end_ledger();
}

/// C15 (receiving side): a first packet carrying `N` user descriptors (+ the dedicated one if
/// `fragmented`); the receiver's control buffer takes 64
pub fn many<const N: usize>(fragmented: bool) {
    setup(64);
    env::set_block_is_violation(true);
    let (s_fd, r_fd) = raw_pair();
    let rx = rx_from_fd(r_fd);
    let (a, b) = raw_pair();
    let mut fds = [a; 70];
    let ded = raw_pair();
    let data: [u8; 25] = kani::any();
    let mut n = N;
    if fragmented {
        fds[n] = ded.1;
        n += 1;
    }
    let first = if fragmented { 24 } else { 1 };
    let total = if fragmented { 25 } else { 1 };
    assert!(inject(s_fd, Some(total), &data[..first], &fds[..n]) > 0);
    if fragmented {
        assert!(inject(ded.0, None, &data[24..25], &[]) > 0);
    }
    raw_close(ded.0);
    raw_close(ded.1);
    // a hanging receiver is a violation only while the sender's contract is kept
    env::set_block_is_violation(N + (fragmented as usize) <= ph::max_fds_in_cmsg());
    let r = rx.recv();
    // A header packet with at most 64 descriptors in all (the bound `send_many_*` shows the sender
    // keeps) must come out complete.  More than that is outside the sender's contract: there only
    // memory safety is examined (CBMC's checks over the control-buffer parsing, C18).
    let cap = ph::max_fds_in_cmsg();
    if N + (fragmented as usize) <= cap {
        let (got, ch, _) = r.unwrap();
        assert!(got.len() == total && got[0] == data[0], "C15: payload");
        assert!(ch.len() == N, "C15: message delivered with attachments missing or mis-assigned");
        assert!(!env::trunc_ctl(), "C15/C18: descriptors were cut off although they fit");
        drop(ch);
    } else {
        crate::witness!(env::trunc_ctl(), "WITNESS:TRUNCATED");
        drop(r);
    }
    raw_close(a);
    raw_close(b);
    raw_close(s_fd);
    drop(rx);
    end_ledger();
}

/// C01/C13/C18 (receiving side): any VALID plan must be reassembled — in particular follow-ups
/// that are SHORTER than the receiver's read window, which is what the sender emits after an
/// ENOBUFS made it shrink its fragment size (send_plan_*_enobufs: every follow-up is non-empty,
/// at most min(window, remaining), and they tile the message).  `cuts` are the packet boundaries.
fn short_followups<const L: usize, const N: usize>(cuts: [usize; N], use_try: bool) {
    setup(64);
    env::set_block_is_violation(true);
    let (s_fd, r_fd) = raw_pair();
    let rx = rx_from_fd(r_fd);
    let ded = raw_pair();
    let data: [u8; L] = kani::any();
    assert!(inject(s_fd, Some(L), &data[..cuts[0]], &[ded.1]) > 0);
    let mut k = 0;
    while k + 1 < N {
        assert!(inject(ded.0, None, &data[cuts[k]..cuts[k + 1]], &[]) > 0);
        k += 1;
    }
    raw_close(ded.0);
    raw_close(ded.1);
    let (got, ch, sh) = if use_try { rx.try_recv().unwrap() } else { rx.recv().unwrap() };
    assert!(got.len() == L, "C01: reassembled length");
    let i = any_usize_in(0, L - 1);
    assert!(got[i] == data[i], "C01/C18: reassembled byte differs (or was never written)");
    assert!(ch.is_empty() && sh.is_empty());
    drop((got, ch, sh, rx));
    raw_close(s_fd);
    end_ledger();
}

/// the same for an ARBITRARY valid plan of a 60-byte message: first fragment 1..=24 bytes, then 1..=3
/// follow-ups of 1..=32 bytes each that tile the rest — all boundaries are solver variables
fn plan_sym() {
    const L: usize = 60;
    setup(64);
    env::set_block_is_violation(true);
    let (s_fd, r_fd) = raw_pair();
    let rx = rx_from_fd(r_fd);
    let ded = raw_pair();
    let data: [u8; L] = kani::any();
    let f = any_usize_in(1, 24);
    let n = any_usize_in(1, 3);
    let s1 = any_usize_in(1, 32);
    let s2 = any_usize_in(1, 32);
    let c1 = f + s1;
    let c2 = c1 + s2;
    // the plan must tile the message exactly
    if n == 1 {
        kani::assume(c1 == L);
    } else if n == 2 {
        kani::assume(c2 == L);
    } else {
        kani::assume(c2 < L && L - c2 <= 32);
    }
    assert!(inject(s_fd, Some(L), &data[..f], &[ded.1]) > 0);
    assert!(inject(ded.0, None, &data[f..c1], &[]) > 0);
    if n >= 2 {
        assert!(inject(ded.0, None, &data[c1..c2], &[]) > 0);
    }
    if n >= 3 {
        assert!(inject(ded.0, None, &data[c2..L], &[]) > 0);
    }
    raw_close(ded.0);
    raw_close(ded.1);
    let (got, ch, sh) = rx.recv().unwrap();
    assert!(got.len() == L, "C01: reassembled length");
    let i = any_usize_in(0, L - 1);
    assert!(got[i] == data[i], "C01/C18: reassembled byte differs (or was never written)");
    assert!(ch.is_empty() && sh.is_empty());
    crate::witness!(n == 3 && f < 24, "WITNESS:THREE_FOLLOWUPS_SHORT_FIRST");
    drop((got, ch, sh, rx));
    raw_close(s_fd);
    end_ledger();
}

/// C02 (receiving side): two multi-packet messages A (57 bytes: 24+32+1) and B (25 bytes: 24+1) from two
/// senders whose packets interleave.  By the one-enqueue invariant (`send_plan_*`) only the header
/// packets share a queue; follow-ups travel on each message's own channel — here B's follow-up even
/// arrives before A's.  Each receive must return one whole message, in header order.
fn interleaved(a_first: bool) {
    setup(64);
    env::set_block_is_violation(true);
    let (s_fd, r_fd) = raw_pair();
    let rx = rx_from_fd(r_fd);
    let da = raw_pair();
    let db = raw_pair();
    let a: [u8; 57] = kani::any();
    let b: [u8; 25] = kani::any();
    if a_first {
        assert!(inject(s_fd, Some(57), &a[..24], &[da.1]) > 0);
        assert!(inject(s_fd, Some(25), &b[..24], &[db.1]) > 0);
    } else {
        assert!(inject(s_fd, Some(25), &b[..24], &[db.1]) > 0);
        assert!(inject(s_fd, Some(57), &a[..24], &[da.1]) > 0);
    }
    assert!(inject(db.0, None, &b[24..], &[]) > 0);
    assert!(inject(da.0, None, &a[24..56], &[]) > 0);
    assert!(inject(da.0, None, &a[56..], &[]) > 0);
    raw_close(da.0);
    raw_close(da.1);
    raw_close(db.0);
    raw_close(db.1);
    let (m1, _, _) = rx.recv().unwrap();
    let (m2, _, _) = rx.try_recv().unwrap();
    let (ga, gb) = if a_first { (&m1, &m2) } else { (&m2, &m1) };
    assert!(ga.len() == 57 && gb.len() == 25, "C02: messages delivered whole, in the order their header packets were queued");
    let i = any_usize_in(0, 56);
    let j = any_usize_in(0, 24);
    assert!(ga[i] == a[i], "C02: bytes of different messages mixed (message A)");
    assert!(gb[j] == b[j], "C02: bytes of different messages mixed (message B)");
    drop((m1, m2, rx));
    raw_close(s_fd);
    end_ledger();
}

/// C03: a SENDER handle of channel T travels inside a message queued on C while every other sender
/// handle of T is gone.  sc: 0 = still queued, 1 = C's receiver dropped with it, 2 = unpacked and dropped
fn sender_in_transit(sc: u8) {
    setup(64);
    env::set_block_is_violation(true);
    let (ts, tr) = raw_pair();
    let (cs, cr) = raw_pair();
    let t_rx = rx_from_fd(tr);
    let b: u8 = kani::any();
    assert!(inject(ts, Some(1), &[b], &[]) > 0);
    assert!(inject(cs, Some(1), &[7u8], &[ts]) > 0);
    raw_close(ts); // the only local sender handle; one more is in transit
    let c_rx = rx_from_fd(cr);
    let (g, _, _) = t_rx.try_recv().unwrap();
    assert!(g.len() == 1 && g[0] == b, "C03: message sent before comes first");
    let r = t_rx.try_recv();
    assert!(matches!(r, Err(ref e) if !e.channel_is_closed()), "C03: a sender handle in transit still counts: must read Empty, not Disconnected");
    core::mem::forget(r);
    if sc == 1 {
        drop(c_rx);
        let r = t_rx.try_recv();
        assert!(matches!(r, Err(ref e) if e.channel_is_closed()), "C03: the queue carrying the last sender handle is gone: must read Disconnected");
        core::mem::forget(r);
    } else if sc == 2 {
        let (_d, mut ch, _r) = c_rx.recv().unwrap();
        assert!(ch.len() == 1);
        let s = ch.pop().unwrap().to_sender();
        let c: u8 = kani::any();
        s.send(&[c], vec![], vec![]).unwrap();
        let (g, _, _) = t_rx.try_recv().unwrap();
        assert!(g.len() == 1 && g[0] == c, "C03/C04: the unpacked sender reaches the channel");
        drop(s);
        let r = t_rx.try_recv();
        assert!(matches!(r, Err(ref e) if e.channel_is_closed()), "C03: last sender handle dropped: must read Disconnected");
        core::mem::forget(r);
        drop(c_rx);
    } else {
        drop(c_rx);
    }
    drop(t_rx);
    raw_close(cs);
    end_ledger();
}

/// C09 (b)(c)(d): the receiving end of T travels inside a message queued on C.
/// sc: 0 = still in transit, 1 = C's receiver dropped with the message queued, 2 = unpacked first,
/// 3 = unpacked onto descriptor number 0 and dropped again
fn transit<const L: usize>(sc: u8) {
    setup(64);
    env::set_block_is_violation(true);
    let (ts, tr) = raw_pair();
    let (cs, cr) = raw_pair();
    let t_tx = tx_from_fd(ts);
    assert!(inject(cs, Some(1), &[7u8], &[tr]) > 0);
    raw_close(tr);
    let mut c_rx = Some(rx_from_fd(cr));
    let mut unpacked = None;
    if sc == 1 {
        drop(c_rx.take());
    }
    if sc == 2 || sc == 3 {
        if sc == 3 {
            // the process has no stdin: the descriptor the receiver arrives on is number 0
            env::next_fd_is(0);
        }
        let (_d, mut ch, _r) = c_rx.as_ref().unwrap().recv().unwrap();
        assert!(ch.len() == 1);
        unpacked = Some(ch.pop().unwrap().to_receiver());
        if sc == 3 {
            assert!(ph::receiver_fd(unpacked.as_ref().unwrap()) == 0);
            // ... and it is dropped again: now the receiver exists nowhere
            drop(unpacked.take());
        }
    }
    let data: [u8; L] = kani::any();
    let r = t_tx.send(&data[..], vec![], vec![]);
    if sc == 1 || sc == 3 {
        assert!(r.is_err(), "C09: send to a receiver that exists nowhere any more reported success");
    } else {
        assert!(r.is_ok(), "C09: send to a receiver that is only in transit failed");
        let rx = match unpacked.take() {
            Some(rx) => rx,
            None => {
                let (_d, mut ch, _r) = c_rx.as_ref().unwrap().recv().unwrap();
                assert!(ch.len() == 1);
                ch.pop().unwrap().to_receiver()
            },
        };
        let (got, _, _) = rx.recv().unwrap();
        assert!(got.len() == L, "C09: message sent while the receiver was in transit arrives whole");
        let i = any_usize_in(0, L - 1);
        assert!(got[i] == data[i], "C09: bytes differ");
    }
    core::mem::forget(r);
    drop((t_tx, c_rx, unpacked));
    raw_close(cs);
    end_ledger();
}

harnesses! {
    #[unwind(6)] fn recv_interleaved_ab() { interleaved(true) }
    #[unwind(6)] fn recv_interleaved_ba() { interleaved(false) }
    #[unwind(6)] fn sender_transit_queued() { sender_in_transit(0) }
    #[unwind(6)] fn sender_transit_carrier_dropped() { sender_in_transit(1) }
    #[unwind(6)] fn sender_transit_unpacked_dropped() { sender_in_transit(2) }
    // first fragment shrunk (16 < 24), follow-ups of 10, 20, 11 bytes (window 32)
    #[unwind(8)] fn recv_short_57_a() { short_followups::<57, 4>([16, 26, 46, 57], false) }
    // full first fragment, then 1-byte, full-window and short tail packets
    #[unwind(8)] fn recv_short_89_b() { short_followups::<89, 5>([24, 25, 57, 80, 89], true) }
    // two packets, the follow-up one byte shorter than the window would allow
    #[unwind(8)] fn recv_short_60_c() { short_followups::<60, 3>([24, 55, 60], false) }
    // a message that WOULD fit one packet (20 <= first window 24) but was re-sent in three after ENOBUFS:
    // the header's total alone does not say whether follow-ups exist
    #[unwind(8)] fn recv_short_20_d() { short_followups::<20, 3>([8, 14, 20], false) }
    #[unwind(8)] fn recv_short_24_e() { short_followups::<24, 2>([12, 24], true) }
    #[unwind(8)] fn recv_plan_sym_60() { plan_sym() }
    #[unwind(6)] fn transit_queued_small() { transit::<3>(0) }
    #[unwind(6)] fn transit_queued_multi() { transit::<57>(0) }
    #[unwind(6)] fn transit_carrier_dropped_small() { transit::<3>(1) }
    #[unwind(6)] fn transit_carrier_dropped_multi() { transit::<57>(1) }
    #[unwind(6)] fn transit_unpacked_small() { transit::<3>(2) }
    #[unwind(6)] fn transit_unpacked_multi() { transit::<57>(2) }
    #[unwind(6)] fn transit_unpacked_fd0_dropped_small() { transit::<3>(3) }
    #[unwind(6)] fn transit_unpacked_fd0_dropped_multi() { transit::<57>(3) }

    #[unwind(6)] fn recv_att_1s() { attachments::<3, 1>(0) }
    #[unwind(6)] fn recv_att_2s_1r() { attachments::<3, 2>(1) }
    #[unwind(6)] fn recv_att_2s_2r_multi() { attachments::<57, 2>(2) }
    #[unwind(6)] fn recv_att_1s_multi25() { attachments::<25, 1>(0) }

    #[unwind(6)] fn crash_after_0_nosurv() { crash(0, false, false, false) }
    #[unwind(6)] fn crash_after_1_nosurv() { crash(1, false, false, false) }
    #[unwind(6)] fn crash_after_2_nosurv_try() { crash(2, false, true, true) }
    #[unwind(6)] fn crash_after_3_nosurv() { crash(3, false, true, false) }
    #[unwind(6)] fn crash_after_1_surv() { crash(1, true, false, false) }
    #[unwind(6)] fn crash_after_2_surv_try() { crash(2, true, true, true) }
    #[unwind(6)] fn crash_after_3_surv() { crash(3, true, false, true) }
}
