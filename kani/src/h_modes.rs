//! C10 — non-blocking and timed receives never block, miss a message, or poison the channel.
use crate::env;
use crate::util::*;
use crate::harnesses;
#[cfg(not(kani))]
use crate::kani;
use ipc_channel::ipc::{self, IpcError, TryRecvError};
use ipc_channel::platform::{self, verif_hooks as ph};
use std::time::Duration;

fn end_ledger() {
    assert!(env::nopen() == 0, "C11: descriptor left open");
    assert!(!env::bad_close(), "C11: close of a descriptor that was not open");
    assert!(!env::model_bound_exceeded(), "MODEL-BOUND");
    crate::reach_end!();
}
fn is_empty<T>(r: &Result<T, TryRecvError>) -> bool {
    matches!(r, Err(TryRecvError::Empty))
}
fn is_disc<T>(r: &Result<T, TryRecvError>) -> bool {
    matches!(r, Err(TryRecvError::IpcError(IpcError::Disconnected)))
}

/// one concrete duration on an idle connected channel: returns Empty after ONE bounded wait whose length is
/// the duration in milliseconds (floor or ceil); in particular a zero duration does not wait at all
fn timeout_concrete(secs: u64, nanos: u32) {
    setup(64);
    let (tx, rx) = platform::channel().unwrap();
    env::set_poll_times_out(true);
    env::set_block_is_violation(true); // none of these durations may turn into 'wait for ever'
    let r = rx.try_recv_timeout(Duration::new(secs, nanos));
    let ms: i64 = (secs as i64) * 1000 + (nanos as i64) / 1_000_000;
    let up: i64 = ms + if nanos % 1_000_000 != 0 { 1 } else { 0 };
    let t = env::last_poll_timeout() as i64;
    assert!(env::polls() >= 1, "C10: the timed receive must wait");
    assert!(t == ms || t == up, "C10: wait is not the requested time in milliseconds");
    let r2: Result<(), TryRecvError> = r.map(|_| ()).map_err(|e| e.into());
    assert!(is_empty(&r2), "C10: timed-out wait must read Empty");
    core::mem::forget(r2);
    assert!(!env::is_nonblocking(ph::receiver_fd(&rx)), "C10: timed receive left the channel non-blocking");
    drop((tx, rx));
    end_ledger();
}

/// a signal interrupts the timed wait on an idle connected channel: whatever the call answers, it is not
/// 'empty' after that single interrupted wait (the requested time has not passed), not 'disconnected', and
/// the channel works afterwards
fn timeout_interrupted() {
    setup(64);
    let (tx, rx) = ipc::channel::<u8>().unwrap();
    env::set_poll_times_out(true);
    env::set_block_is_violation(true);
    env::set_poll_eintr_once(true);
    let r = rx.try_recv_timeout(Duration::from_millis(1000));
    assert!(!matches!(r, Ok(_)), "C10: a message out of nowhere");
    assert!(!is_disc(&r), "C10: an interrupted wait reported as disconnection");
    assert!(!(is_empty(&r) && env::polls() == 1), "C10: 'empty' reported although the only wait was cut short by a signal");
    core::mem::forget(r);
    env::set_poll_times_out(false);
    let v: u8 = kani::any();
    tx.send(v).unwrap();
    let r = rx.try_recv_timeout(Duration::from_millis(5));
    assert!(matches!(r, Ok(x) if x == v), "C10: channel unusable after an interrupted timed receive");
    core::mem::forget(r);
    assert!(!env::is_nonblocking(ph::receiver_fd(ipc::verif_hooks::receiver_os(&rx))), "C10: timed receive left the channel non-blocking");
    drop((tx, rx));
    end_ledger();
}

harnesses! {
    #[unwind(8)] fn modes_timeout_interrupted() { timeout_interrupted() }
    #[unwind(8)] fn modes_timeout_zero() { timeout_concrete(0, 0) }
    #[unwind(8)] fn modes_timeout_1ns() { timeout_concrete(0, 1) }
    #[unwind(8)] fn modes_timeout_sub_ms() { timeout_concrete(0, 999_999) }
    #[unwind(8)] fn modes_timeout_1ms() { timeout_concrete(0, 1_000_000) }
    #[unwind(8)] fn modes_timeout_mixed() { timeout_concrete(2, 500_000_001) }
    // idle -> Empty (and the descriptor is blocking again), message -> message, closed -> Disconnected
    #[unwind(8)] fn modes_try_recv_sequence() {
        setup(64);
        env::set_block_is_violation(true); // try_recv must never reach a blocking wait
        let (tx, rx) = ipc::channel::<u32>().unwrap();
        let fd = ph::receiver_fd(ipc::verif_hooks::receiver_os(&rx));
        let r = rx.try_recv();
        assert!(is_empty(&r), "C10: idle connected channel must read Empty");
        core::mem::forget(r);
        assert!(!env::is_nonblocking(fd), "C10: try_recv left the channel non-blocking");
        let v: u32 = kani::any();
        tx.send(v).unwrap();
        let r = rx.try_recv();
        assert!(matches!(r, Ok(x) if x == v), "C10: completely sent message must be returned");
        core::mem::forget(r);
        assert!(!env::is_nonblocking(fd), "C10: try_recv left the channel non-blocking");
        let w: u32 = kani::any();
        tx.send(w).unwrap();
        drop(tx);
        let r = rx.try_recv();
        assert!(matches!(r, Ok(x) if x == w), "C10/C03: queued message comes before the disconnection");
        core::mem::forget(r);
        let r = rx.try_recv();
        assert!(is_disc(&r), "C10: finished channel must read Disconnected");
        core::mem::forget(r);
        assert!(!env::is_nonblocking(fd), "C10: try_recv left the channel non-blocking (error path)");
        drop(rx);
        end_ledger();
    }
    // a multi-packet message is returned whole by try_recv
    #[unwind(8)] fn modes_try_recv_multi() {
        setup(64);
        env::set_block_is_violation(true);
        let (tx, rx) = platform::channel().unwrap();
        let d: [u8; 57] = kani::any();
        tx.send(&d[..], vec![], vec![]).unwrap();
        let (g, _, _) = rx.try_recv().unwrap();
        let i = any_usize_in(0, 56);
        assert!(g.len() == 57 && g[i] == d[i], "C10: multi-packet message through try_recv");
        assert!(!env::is_nonblocking(ph::receiver_fd(&rx)), "C10: try_recv left the channel non-blocking");
        drop((g, tx, rx));
        end_ledger();
    }
    // the time-out handed to poll(2) for every Duration
    #[unwind(8)] fn modes_timeout_arith() {
        setup(64);
        let (tx, rx) = platform::channel().unwrap();
        let secs: u64 = kani::any();
        let nanos: u32 = any_u32_in(0, 999_999_999);
        let d = Duration::new(secs, nanos);
        env::set_poll_times_out(true);
        // an over-long duration may wait for ever by documentation; that path is not a violation
        env::set_block_is_violation(false);
        let r = rx.try_recv_timeout(d);
        assert!(env::polls() >= 1, "C10: the timed receive must wait");
        // "to millisecond granularity": rounding the requested time down or up to a millisecond is
        // accepted; anything else (another unit, a truncated value) is not
        let ms: u128 = (secs as u128) * 1000 + (nanos as u128) / 1_000_000;
        let up: u128 = ms + if nanos % 1_000_000 != 0 { 1 } else { 0 };
        let t = env::last_poll_timeout();
        if up <= i32::MAX as u128 {
            assert!(t >= 0 && (t as u128 == ms || t as u128 == up), "C10: wait is not the requested time in milliseconds");
        } else if ms > i32::MAX as u128 {
            assert!(t == -1 || t == i32::MAX, "C10: unrepresentable wait must be 'for ever' (or the longest representable), not a shorter one");
        }
        assert!(matches!(r, Err(ref e) if !e.channel_is_closed()), "C10: timed-out wait must not report a message or closure");
        let r2: Result<(), TryRecvError> = r.map(|_| ()).map_err(|e| e.into());
        assert!(is_empty(&r2), "C10: timed-out wait must read Empty");
        core::mem::forget(r2);
        assert!(!env::is_nonblocking(ph::receiver_fd(&rx)), "C10: timed receive left the channel non-blocking");
        drop((tx, rx));
        end_ledger();
    }
    // readiness during the wait: message / disconnection are returned, not Empty
    #[unwind(8)] fn modes_timeout_ready() {
        setup(64);
        env::set_block_is_violation(true);
        let (tx, rx) = ipc::channel::<u8>().unwrap();
        let ms: u64 = kani::any();
        let d = Duration::from_millis(ms % 100_000);
        let v: u8 = kani::any();
        tx.send(v).unwrap();
        let r = rx.try_recv_timeout(d);
        assert!(matches!(r, Ok(x) if x == v), "C10: message present during the wait must be returned");
        core::mem::forget(r);
        drop(tx);
        let r = rx.try_recv_timeout(d);
        assert!(is_disc(&r), "C10: disconnection during the wait must be returned");
        core::mem::forget(r);
        drop(rx);
        end_ledger();
    }
    // a message that was completely sent before the last sender went away is still returned by the
    // timed receive (the wait sees data AND a hang-up at once), and only then the disconnection
    #[unwind(8)] fn modes_timeout_queued_then_hangup() {
        setup(64);
        env::set_block_is_violation(true);
        let (tx, rx) = platform::channel().unwrap();
        let w: [u8; 2] = kani::any();
        tx.send(&w[..], vec![], vec![]).unwrap();
        drop(tx);
        let d = Duration::from_millis(5);
        match rx.try_recv_timeout(d) {
            Ok((g, _, _)) => assert!(g.len() == 2 && g[0] == w[0] && g[1] == w[1], "C10: bytes"),
            Err(_) => assert!(false, "C10: timed receive missed a message queued before the last sender was dropped"),
        }
        match rx.try_recv_timeout(d) {
            Ok(_) => assert!(false, "C10: message delivered twice"),
            Err(e) => assert!(e.channel_is_closed(), "C10: finished channel must read disconnected"),
        }
        drop(rx);
        end_ledger();
    }
    // after a non-blocking receive a blocking one still blocks (instead of failing)
    #[unwind(8)] fn modes_recv_after_try() {
        setup(64);
        let (tx, rx) = ipc::channel::<u8>().unwrap();
        env::set_block_is_violation(true);
        let r = rx.try_recv();
        assert!(is_empty(&r));
        core::mem::forget(r);
        let r = rx.try_recv_timeout(Duration::from_millis(0));
        assert!(is_empty(&r), "C10: zero wait on an idle channel reads Empty");
        core::mem::forget(r);
        // now a blocking recv on the idle channel must reach the blocking state, not return
        crate::reach_end!();
        env::set_block_is_violation(false);
        let r = rx.recv();
        // only reachable if recv() returned although nothing was sent and a sender is alive
        assert!(false, "C10: blocking receive on an idle channel returned instead of waiting");
    }
}
