//! Recording model kernel (DESIGN §2): keeps no queues and copies no payload.  Every transmission
//! attempt is logged as (fd, header word, source address, length, attached descriptors, verdict),
//! every descriptor creation/close in a small ledger.  Enough for everything that is decided on
//! the sending side, at full machine width (lengths and the reported send-buffer size are
//! solver variables; no byte is ever read).
#![allow(non_upper_case_globals, unused, static_mut_refs, clippy::missing_safety_doc)]
use core::ptr;
use libc::{c_char, c_int, c_void, mode_t, msghdr, off_t, size_t, socklen_t, ssize_t};

pub const IS_MODEL: bool = true;
pub const MAXA: usize = 10;
pub const PAY: usize = 40;
#[cfg(not(feature = "bigfd"))]
pub const MAXF: usize = 6;
#[cfg(feature = "bigfd")]
pub const MAXF: usize = 70;
#[cfg(not(feature = "bigfd"))]
pub const NFD: usize = 48;
#[cfg(feature = "bigfd")]
pub const NFD: usize = 200;

#[derive(Clone, Copy)]
pub struct Att {
    pub fd: c_int,
    pub hdr: usize,
    pub has_hdr: bool,
    pub base: usize,
    pub len: usize,
    pub nfds: usize,
    pub fds: [c_int; MAXF],
    pub ctl_ok: bool, // control message well-formed (level, type, lengths)
    pub ok: bool,
}
pub const A0: Att =
    Att { fd: -1, hdr: 0, has_hdr: false, base: 0, len: 0, nfds: 0, fds: [-1; MAXF], ctl_ok: true, ok: false };

pub struct Rec {
    pub att: [Att; MAXA],
    pub natt: usize,
    pub mask: u32,
    pub sndbuf: u32,
    pub nextfd: c_int,
    pub open: [bool; NFD],
    pub pair_of: [c_int; NFD], // other end of the socketpair this fd was created in (-1: none)
    pub nopen: usize,
    pub bad_close: bool,
    pub no_cloexec: bool,
    pub fail_fd_at: i32,
    pub fd_creates: i32,
    pub max_attempts: usize,
    pub nshm: usize,
    pub nmapped: usize,
}
pub static mut R: Rec = Rec {
    att: [A0; MAXA],
    natt: 0,
    mask: 0,
    sndbuf: 0,
    nextfd: 3,
    open: [false; NFD],
    pair_of: [-1; NFD],
    nopen: 0,
    bad_close: false,
    no_cloexec: false,
    fail_fd_at: -1,
    fd_creates: 0,
    max_attempts: MAXA,
    nshm: 0,
    nmapped: 0,
};
static mut ERRNO: c_int = 0;
/// copy the first PAY payload bytes into the attempt record (off for the plan harnesses, whose
/// buffers are never initialised)
pub static mut SNAPSHOT_PAYLOAD: bool = false;
/// the first bytes of each attempt's payload (where the ipc layer writes attachment indices)
pub static mut PAYS: [[u8; PAY]; MAXA] = [[0; PAY]; MAXA];
static mut SHMBUF: [[u8; 16]; 10] = [[0; 16]; 10];


#[no_mangle]
pub unsafe extern "C" fn __errno_location() -> *mut c_int {
    &raw mut ERRNO
}
unsafe fn new_fd(cloexec: bool) -> c_int {
    kani::assume((R.nextfd as usize) < NFD);
    let fd = R.nextfd;
    R.nextfd += 1;
    R.open[fd as usize] = true;
    R.nopen += 1;
    if !cloexec {
        R.no_cloexec = true;
    }
    fd
}
unsafe fn fd_create_fails() -> bool {
    let i = R.fd_creates;
    R.fd_creates += 1;
    if R.fail_fd_at >= 0 && i == R.fail_fd_at {
        ERRNO = libc::EMFILE;
        return true;
    }
    false
}
#[no_mangle]
pub unsafe extern "C" fn socketpair(_d: c_int, t: c_int, _p: c_int, sv: *mut c_int) -> c_int {
    if fd_create_fails() {
        return -1;
    }
    let ce = t & libc::SOCK_CLOEXEC != 0;
    let a = new_fd(ce);
    let b = new_fd(ce);
    R.pair_of[a as usize] = b;
    R.pair_of[b as usize] = a;
    *sv = a;
    *sv.add(1) = b;
    0
}
#[no_mangle]
pub unsafe extern "C" fn getsockopt(_fd: c_int, _l: c_int, n: c_int, v: *mut c_void, len: *mut socklen_t) -> c_int {
    assert!(n == libc::SO_SNDBUF);
    *(v as *mut u32) = R.sndbuf;
    *len = 4;
    0
}
#[no_mangle]
pub unsafe extern "C" fn close(fd: c_int) -> c_int {
    if fd < 0 || fd as usize >= NFD || !R.open[fd as usize] {
        R.bad_close = true;
        ERRNO = libc::EBADF;
        return -1;
    }
    R.open[fd as usize] = false;
    R.nopen -= 1;
    0
}
unsafe fn attempt(a: Att) -> ssize_t {
    kani::assume(R.natt < MAXA && R.natt < R.max_attempts); // capacity: sends needing more attempts are outside the bound
    let i = R.natt;
    R.natt += 1;
    let fail = (R.mask >> i) & 1 == 1;
    R.att[i] = a;
    R.att[i].ok = !fail;
    if SNAPSHOT_PAYLOAD && a.len > 0 {
        let n = if a.len < PAY { a.len } else { PAY };
        // (into its own object: CBMC models a memcpy into a member of a large struct as an update
        // of the whole struct, which was seen to clobber unrelated fields)
        ptr::copy_nonoverlapping(a.base as *const u8, PAYS[i].as_mut_ptr(), n);
    }
    if fail {
        ERRNO = libc::ENOBUFS;
        -1
    } else {
        (a.len + if a.has_hdr { 8 } else { 0 }) as ssize_t
    }
}
#[no_mangle]
pub unsafe extern "C" fn sendmsg(fd: c_int, msg: *const msghdr, _flags: c_int) -> ssize_t {
    let m = &*msg;
    assert!(m.msg_iovlen == 2);
    let iv0 = *m.msg_iov;
    let iv1 = *m.msg_iov.add(1);
    assert!(iv0.iov_len == 8);
    let hdr = *(iv0.iov_base as *const usize);
    let mut a = Att { fd, hdr, has_hdr: true, base: iv1.iov_base as usize, len: iv1.iov_len, ..A0 };
    if m.msg_controllen > 0 {
        let c = m.msg_control as *const libc::cmsghdr;
        // the kernel copies in the whole control buffer: msg_controllen bytes, padding included
        let _last: u8 = ptr::read_volatile((c as *const u8).add(m.msg_controllen as usize - 1));
        let n = ((*c).cmsg_len - 16) / 4;
        a.ctl_ok = m.msg_controllen >= 16
            && (*c).cmsg_level == libc::SOL_SOCKET
            && (*c).cmsg_type == libc::SCM_RIGHTS
            && (*c).cmsg_len >= 16
            && ((*c).cmsg_len - 16) % 4 == 0
            && m.msg_controllen == 16 + ((4 * n + 7) & !7);
        kani::assume(n <= MAXF); // model capacity
        a.nfds = n;
        let p = (c as *const u8).add(16) as *const c_int;
        let mut i = 0;
        while i < MAXF {
            if i < n {
                a.fds[i] = *p.add(i);
            }
            i += 1;
        }
    }
    attempt(a)
}
#[no_mangle]
pub unsafe extern "C" fn send(fd: c_int, buf: *const c_void, len: size_t, _flags: c_int) -> ssize_t {
    attempt(Att { fd, base: buf as usize, len, ..A0 })
}
// zero-length shared memory is all the recording kernel supports (no mapping is made)
#[no_mangle]
pub unsafe extern "C" fn shm_open(_n: *const c_char, _f: c_int, _m: mode_t) -> c_int {
    if fd_create_fails() {
        return -1;
    }
    new_fd(true)
}
#[no_mangle]
pub unsafe extern "C" fn shm_unlink(_n: *const c_char) -> c_int {
    0
}
#[no_mangle]
pub unsafe extern "C" fn ftruncate(_fd: c_int, len: off_t) -> c_int {
    assert!(len <= 16);
    0
}
// minimal mappings: every mmap hands out the next 16-byte slot (contents are not shared between
// mappings of one object — the recording kernel is not used to read regions back)
#[no_mangle]
pub unsafe extern "C" fn mmap(_a: *mut c_void, len: size_t, _p: c_int, _f: c_int, _fd: c_int, _o: off_t) -> *mut c_void {
    kani::assume(R.nshm < 10 && len <= 16);
    let p = SHMBUF[R.nshm].as_mut_ptr();
    R.nshm += 1;
    R.nmapped += 1;
    p as *mut c_void
}
#[no_mangle]
pub unsafe extern "C" fn munmap(_a: *mut c_void, _len: size_t) -> c_int {
    R.nmapped -= 1;
    0
}
#[no_mangle]
pub unsafe extern "C" fn getpid() -> c_int {
    42
}
#[no_mangle]
pub unsafe extern "C" fn clock_gettime(_c: c_int, ts: *mut libc::timespec) -> c_int {
    (*ts).tv_sec = 1_700_000_000;
    (*ts).tv_nsec = 5;
    0
}
#[no_mangle]
pub unsafe extern "C" fn fcntl(fd: c_int, cmd: c_int, _arg: c_int) -> c_int {
    assert!(cmd == libc::F_DUPFD_CLOEXEC || cmd == libc::F_DUPFD); // the only commands the sending side uses
    if fd_create_fails() {
        return -1;
    }
    new_fd(cmd == libc::F_DUPFD_CLOEXEC)
}
#[no_mangle]
pub unsafe extern "C" fn dup(fd: c_int) -> c_int {
    if fd_create_fails() {
        return -1;
    }
    new_fd(false)
}


// ------------------------------------------------------------------------------------------------
// Traps.  Under -Z c-ffi a foreign function without a definition is NOT rejected: CBMC silently
// gives it a nondeterministic result (seen with fcntl).  Every system call the crate could make
// and this kernel does not model is therefore defined here as a failing assertion; the runner maps
// an "UNMODELLED" failure to "inconclusive".
macro_rules! trap {
    ($($name:ident ( $($t:ty),* ) -> $r:ty = $v:expr;)*) => {
        $(
            #[no_mangle]
            pub unsafe extern "C" fn $name($(_: $t),*) -> $r {
                assert!(false, concat!("UNMODELLED libc call: ", stringify!($name)));
                $v
            }
        )*
        pub fn link_traps() {
            $( core::hint::black_box($name as unsafe extern "C" fn($($t),*) -> $r); )*
        }
    };
}
trap! {
    bind(c_int, *const libc::sockaddr, socklen_t) -> c_int = -1;
    listen(c_int, c_int) -> c_int = -1;
    accept(c_int, *mut libc::sockaddr, *mut socklen_t) -> c_int = -1;
    accept4(c_int, *mut libc::sockaddr, *mut socklen_t, c_int) -> c_int = -1;
    sendto(c_int, *const c_void, size_t, c_int, *const libc::sockaddr, socklen_t) -> ssize_t = -1;
    recvfrom(c_int, *mut c_void, size_t, c_int, *mut libc::sockaddr, *mut socklen_t) -> ssize_t = -1;
    dup2(c_int, c_int) -> c_int = -1;
    dup3(c_int, c_int, c_int) -> c_int = -1;
    pipe(*mut c_int) -> c_int = -1;
    pipe2(*mut c_int, c_int) -> c_int = -1;
    eventfd(libc::c_uint, c_int) -> c_int = -1;
    shutdown(c_int, c_int) -> c_int = -1;
    memfd_create(*const c_char, libc::c_uint) -> c_int = -1;
    unlink(*const c_char) -> c_int = -1;
    rmdir(*const c_char) -> c_int = -1;
    mkdir(*const c_char, mode_t) -> c_int = -1;
    recvmsg(c_int, *mut msghdr, c_int) -> ssize_t = -1;
    recv(c_int, *mut c_void, size_t, c_int) -> ssize_t = -1;
    poll(*mut libc::pollfd, libc::nfds_t, c_int) -> c_int = -1;
    fstat(c_int, *mut libc::stat) -> c_int = -1;
    socket(c_int, c_int, c_int) -> c_int = -1;
    connect(c_int, *const libc::sockaddr, socklen_t) -> c_int = -1;
    setsockopt(c_int, c_int, c_int, *const c_void, socklen_t) -> c_int = -1;
    epoll_create1(c_int) -> c_int = -1;
    epoll_ctl(c_int, c_int, c_int, *mut libc::epoll_event) -> c_int = -1;
    epoll_wait(c_int, *mut libc::epoll_event, c_int, c_int) -> c_int = -1;
}

pub fn link() {
    link_traps();
    use core::hint::black_box as bb;
    bb(__errno_location as unsafe extern "C" fn() -> *mut c_int);
    bb(socketpair as unsafe extern "C" fn(c_int, c_int, c_int, *mut c_int) -> c_int);
    bb(getsockopt as unsafe extern "C" fn(c_int, c_int, c_int, *mut c_void, *mut socklen_t) -> c_int);
    bb(close as unsafe extern "C" fn(c_int) -> c_int);
    bb(sendmsg as unsafe extern "C" fn(c_int, *const msghdr, c_int) -> ssize_t);
    bb(send as unsafe extern "C" fn(c_int, *const c_void, size_t, c_int) -> ssize_t);
    bb(shm_open as unsafe extern "C" fn(*const c_char, c_int, mode_t) -> c_int);
    bb(shm_unlink as unsafe extern "C" fn(*const c_char) -> c_int);
    bb(ftruncate as unsafe extern "C" fn(c_int, off_t) -> c_int);
    bb(getpid as unsafe extern "C" fn() -> c_int);
    bb(clock_gettime as unsafe extern "C" fn(c_int, *mut libc::timespec) -> c_int);
    bb(dup as unsafe extern "C" fn(c_int) -> c_int);
    bb(fcntl as unsafe extern "C" fn(c_int, c_int, c_int) -> c_int);
    bb(mmap as unsafe extern "C" fn(*mut c_void, size_t, c_int, c_int, c_int, off_t) -> *mut c_void);
    bb(munmap as unsafe extern "C" fn(*mut c_void, size_t) -> c_int);
}

// ---- environment API (same names as kn.rs) -----------------------------------------------------
pub fn set_record_only(_b: bool) {}
pub fn set_max_attempts(n: usize) {
    unsafe { R.max_attempts = n }
}
pub fn set_sndbuf(v: u32) {
    unsafe { R.sndbuf = v }
}
pub fn set_enobufs_mask(m: u32) {
    unsafe {
        R.mask = m;
        R.natt = 0;
    }
}
pub fn set_fail_fd_at(i: i32) {
    unsafe {
        R.fail_fd_at = i;
        R.fd_creates = 0;
    }
}
pub fn att_count() -> usize {
    unsafe { R.natt }
}
pub fn att(i: usize) -> Att {
    unsafe { R.att[i] }
}
pub fn att_pay(i: usize) -> [u8; PAY] {
    unsafe { PAYS[i] }
}
/// the other end of the socket pair `fd` was created in (-1 if it was not created by socketpair)
pub fn pair_of(fd: c_int) -> c_int {
    unsafe {
        if fd < 0 || fd as usize >= NFD {
            -1
        } else {
            R.pair_of[fd as usize]
        }
    }
}
/// monotone creation index of a descriptor (the recording kernel never reuses numbers)
pub fn create_seq(fd: c_int) -> i64 {
    fd as i64
}
pub fn seq_now() -> i64 {
    unsafe { R.nextfd as i64 - 1 }
}
pub fn is_open(fd: c_int) -> bool {
    unsafe { fd >= 0 && (fd as usize) < NFD && R.open[fd as usize] }
}
pub fn nopen() -> usize {
    unsafe { R.nopen }
}
pub fn nmapped() -> usize {
    unsafe { R.nmapped }
}
pub fn set_snapshot_payload(b: bool) {
    unsafe { SNAPSHOT_PAYLOAD = b }
}
pub fn bad_close() -> bool {
    unsafe { R.bad_close }
}
pub fn no_cloexec() -> bool {
    unsafe { R.no_cloexec }
}
pub fn model_bound_exceeded() -> bool {
    false
}
pub fn object_of(fd: c_int) -> i64 {
    if is_open(fd) {
        fd as i64
    } else {
        -1
    }
}
/// a buffer of `len` bytes whose contents are never read by this kernel: only addresses matter
pub fn data_buf(len: usize) -> &'static [u8] {
    if len == 0 {
        return &[];
    }
    unsafe {
        // one allocation of symbolic size; never initialised, never read
        let p = std::alloc::alloc(std::alloc::Layout::from_size_align_unchecked(len, 1));
        core::slice::from_raw_parts(p, len)
    }
}
