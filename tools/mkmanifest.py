#!/usr/bin/env python3
"""Regenerate MANIFEST.json from vlib/table.py (harness/property tables) and mir2smt/queries.py."""
import json, sys, os
HERE = os.path.dirname(os.path.dirname(os.path.abspath(__file__)))
sys.path.insert(0, os.path.join(HERE, "vlib")); sys.path.insert(0, os.path.join(HERE, "mir2smt"))
import table, queries
props = [json.loads(l) for l in open(os.path.join(HERE, "properties.jsonl"))]
claimed = ["C01", "C02", "C03", "C04", "C05", "C06", "C09", "C10", "C11", "C12", "C13", "C14", "C15", "C16", "C18"]
texts = {
"C01": "Bounded model checking of the real send (lengths, buffer sizes symbolic at full width over a recording kernel), the real recv/IpcSender/IpcReceiver/bincode path (contents and values symbolic at boundary lengths over a queueing kernel; valid plans with short follow-ups injected), plus unbounded 64-bit SMT queries over the MIR of the size arithmetic including the inductive step of the fragment loop.",
"C02": "The one-enqueue-per-message invariant that makes interleaving harmless is decided by the solver for all lengths/buffer sizes on the real send; message boundaries and order for two handles are decided on concrete shapes with symbolic contents. Concurrency itself is outside what Kani encodes (stated reduction argument).",
"C03": "Solver-decided agreement of try_recv with the reference model (live handle count, FIFO) after every step of concrete handle histories with symbolic data, plus in-transit, crash and retained-clone scenarios; real Arc/Drop/consume_fd/SCM_RIGHTS code over the model kernel.",
"C04": "Split at the wire interface: the real send's descriptor list (order, dedicated channel last, never more than the receiver takes) for all lengths and buffer sizes; the real recv's reconstruction (identity by kernel object, position, working endpoints, regions) for injected packets of that shape; SMT query for the descriptor-count formula.",
"C05": "Real from_bytes/from_byte/clone/send/recv(from_fd, fstat, mmap)/Drop code with symbolic contents; exact-size backing makes any over-read or read after the last unmap a CBMC failure; zero-length regions received; regions around nested sends.",
"C06": "The real OsIpcReceiverSet::{new, add, select} and mio's real Poll/Registry/Events code over a model of EDGE-triggered epoll that flags a lost wake-up whenever a wait would block while a member has an unread packet or unreported hang-up: concrete sequential scripts (members, arrival pattern, closures, when select is called) with symbolic payloads; exactly-once, ids, per-member order, closed-after-last-message, traffic queued before add. The concurrent part of the quantifier is outside what Kani encodes.",
"C09": "Scenario x shape grid with symbolic payloads: send must fail when the receiver exists nowhere (also when it last lived on descriptor 0) and succeed (and be delivered intact) while it is only in transit.",
"C10": "Solver over all Durations for the poll time-out arithmetic; call sequences with symbolic values for Empty/message/Disconnected (a queued message before the hang-up is returned first) and for blocking mode being restored on every path.",
"C11": "Descriptor/mapping ledger asserted at the end of every harness (all properties) + dedicated error-path, failed-send and close-on-exec harnesses.",
"C12": "Receiver fed with every prefix of the sender's packet plan followed by process exit; never a shortened/mixed message as Ok; disconnected only without survivor (known finding recorded); the same observed through a receiver set (select must not fail as a whole, completed messages of other members survive).",
"C13": "Symbolic ENOBUFS mask over the first 8 attempts on the real send at full width; short follow-ups on the receive side; SMT queries for downsize and the retry steps at all 64-bit values.",
"C14": "Real IpcSender::send/Serialize impls/side tables over the recording kernel: descriptor lists and attachment indices of failed, later, nested and enclosing messages; a receive nested in a Deserialize impl over the queueing kernel.",
"C15": "Sender never emits a header packet with more descriptors than the receiver's control buffer holds (64), for the boundary counts and the three ways a dedicated channel gets added; receiver delivers everything up to that bound.",
"C16": "Every byte string up to 17 bytes x attachment structures x 10 target types through the real OpaqueIpcMessage::to: no panic, only attached endpoints come out (none twice), nothing left open.",
"C18": "CBMC's built-in memory checks over the unsafe transport code in the harnesses of C01/C04/C05/C12/C15 (incl. short follow-ups: every byte of the result was written) + zero-length regions + CMSG arithmetic SMT queries.",
}
reasons = {
"C07": "router: reachable only through RouterProxy::new, which spawns a thread and uses crossbeam-channel; Kani does not model threads and kani-compiler 0.68 ICEs on crossbeam's thread_local with destructor",
"C08": "one-shot server: straight-line socket/bind/listen/accept/connect + tempfile; everything the property states is behaviour of the kernel's listen queue, SO_LINGER, tempfile's RNG and std::fs - model, not code",
"C17": "router shutdown: threads and schedules only (see C07)",
"C19": "agreement of three transports: the in-process transport is built on crossbeam (kani-compiler ICE) and the memfd build's only differing function is an inline-asm syscall (unsupported by Kani); one leg cannot decide a property about agreement",
"C20": "async stream: lazy routing thread + futures executors + wakers - schedules only; behind the async feature's futures channels",
}
checks = []
for pid in claimed:
    P = table.PROPERTIES[pid]
    hs = [h for h, d in table.HARNESSES.items() if pid in d["props"]]
    kernels = sorted(set(table.HARNESSES[h]["features"] for h in hs))
    tech = "Kani/CBMC bounded model checking of the compiled crate over a model kernel (" + ", ".join(kernels) + ")"
    smt = any(pid in q[1] for q in queries.QUERIES)
    if smt:
        tech += " + z3/cvc5 bit-vector queries over the crate's MIR"
    tech += "; counterexamples replayed natively"
    checks.append(dict(property_id=pid,
        quick_cmd=f"python3 run.py --property {pid} --tier quick",
        thorough_cmd=f"python3 run.py --property {pid} --tier thorough",
        evidence_file=f"/verif/evidence/{pid}.json",
        replay_cmd_template="python3 tools/replay.py {path}",
        engine="kani-cbmc" + ("+mir2smt" if smt else ""),
        level_claimed=dict(category="model_checking", text=texts[pid] + " Bounds: " + P["bounds"], design_ref="DESIGN.md §5 " + pid),
        level_note="Trusted: " + "; ".join(P["assumptions"]) + "; hooks H1-H4; fmt::format stub; drop-glue recursion cap guarded by unwinding assertions. Outside: " + P["outside"],
        technique=tech))
na = [dict(property_id=p["id"], reason=reasons[p["id"]]) for p in props if p["id"] not in claimed]
m = dict(version=1, setup_cmd="python3 tools/setup.py",
  hooks=dict(guard="cfg(kani) / cfg(ipc_channel_verif)", enable="cargo kani sets --cfg kani; native replay/validation builds use RUSTFLAGS='--cfg ipc_channel_verif'",
             baseline_off_cmd="cd /repo && cargo test --workspace --no-fail-fast --offline",
             source_commits=["6b3fc75", "7e25d5c", "7a98e87", "827a8b4", "d2fc748"], add_only=True),
  engines=[dict(name="kani-cbmc", path="/verif/kani", serves_properties=claimed, kind_free_text="Kani 0.68 / CBMC 6.11 (CaDiCaL) bounded model checking of /repo compiled with kani-compiler; libc replaced by model kernels kq.rs (queueing) / krec.rs (recording)"),
           dict(name="mir2smt", path="/verif/mir2smt", serves_properties=sorted(set(p for q in queries.QUERIES for p in q[1])), kind_free_text="translator from rustc's MIR dump of /repo to SMT-LIB bit-vectors + full-width queries decided by z3 and cvc5"),
           dict(name="native-replay", path="/verif/replay", serves_properties=claimed, kind_free_text="the same harness code over the real kernel behind fault-injecting libc wrappers: counterexample replay and model validation")],
  checks=checks, not_applicable=na,
  notes="run.py exit codes: 0 pass (KNOWN-FINDING lines for listed findings), 1 violation reproduced natively, 2 inconclusive (timeout, out of memory, unwinding assertion, vacuous harness, solver disagreement, non-reproducing counterexample) - never a pass")
json.dump(m, open(os.path.join(HERE, "MANIFEST.json"), "w"), indent=1)
print("MANIFEST.json:", len(checks), "checks,", len(na), "not applicable")
