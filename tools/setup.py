#!/usr/bin/env python3
"""setup_cmd: build what can be built ahead of time, offline, from files on disk only."""
import os, sys, subprocess
HERE = os.path.dirname(os.path.dirname(os.path.abspath(__file__)))
sys.path.insert(0, os.path.join(HERE, "vlib"))
import kanirun
kanirun.sync_lock()
ok = True
for prof in ("dev", "release"):
    b, log = kanirun.build_native(prof)
    print("native replay", prof, "->", b)
    if not b:
        print(log[-2000:])
        ok = False
for feat in ("k_q",):
    sdir, rc, out = kanirun.seed_target(feat, "seed_noop")
    print("kani seed", feat, "rc", rc)
    if rc != 0:
        print(out[-2000:])
        ok = False
sys.exit(0 if ok else 1)
