#!/usr/bin/env python3
"""replay.py <evidence/replays/X.json>: re-run a recorded counterexample natively (dev + release)."""
import os, sys, json
HERE = os.path.dirname(os.path.dirname(os.path.abspath(__file__)))
sys.path.insert(0, os.path.join(HERE, "vlib"))
import kanirun
kanirun.sync_lock()
d = json.load(open(sys.argv[1]))
bad = False
for prof in ("dev", "release"):
    o = kanirun.replay_native(d["harness"], values=d["values"], profile=prof)
    print(prof, o["outcome"], o.get("panic", ""))
    bad |= o["outcome"] in ("panic", "abort", "blocks-forever", "hang")
sys.exit(1 if bad else 0)
