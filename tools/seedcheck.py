#!/usr/bin/env python3
"""seedcheck.py <seeded/dir> <property> [harness,...]
Apply a seeded change to /repo (git apply), run the property's check (optionally only some
harnesses), and undo the change straight afterwards (git checkout -- .).  Prints the check's
verdict lines.  Nothing else may be running against /repo meanwhile."""
import os, subprocess, sys
d, prop = sys.argv[1], sys.argv[2]
only = sys.argv[3] if len(sys.argv) > 3 else ""
patch = os.path.join(os.path.abspath(d), "patch.diff")
assert subprocess.run(["git", "-C", "/repo", "status", "--porcelain", "--untracked-files=no"], capture_output=True, text=True).stdout.strip() == "", "/repo is not clean"
subprocess.run(["git", "-C", "/repo", "apply", patch], check=True)
try:
    cmd = ["python3", "run.py", "--property", prop, "--tier", "quick", "--no-evidence"]
    if only:
        cmd += ["--only", only]
    p = subprocess.run(cmd, cwd="/verif", capture_output=True, text=True)
    print(p.stdout[-6000:])
    print("exit", p.returncode)
finally:
    subprocess.run(["git", "-C", "/repo", "checkout", "--", "."], check=True)
