"""M-queries (engine E2): full-width SMT queries over the translated size arithmetic.

Each query is `premises => claim` for ALL 64-bit values; the solver is asked for a counterexample
(assert premises, assert not claim): unsat = holds for every value, sat = concrete inputs.
Every query is decided by z3 and by cvc5; an `(error` line, `unknown`, a timeout or a disagreement
makes the query inconclusive.
"""
import os, re, subprocess, time, json, shutil, sys

HERE = os.path.dirname(os.path.abspath(__file__))
sys.path.insert(0, HERE)
from mir2smt import Translator, TranslationError

CACHE = os.environ.get("IPC_VERIF_CACHE", "/root/.cache/ipc-verif")
FUNCS = ["fragment_size", "first_fragment_size", "downsize", "CMSG_ALIGN", "CMSG_LEN", "CMSG_SPACE", "S_ISSOCK"]


def dump_mir():
    """MIR of /repo's current working tree (the extra --cfg makes cargo re-run rustc on the crate
    itself every time without touching any file of /repo)."""
    tdir = os.path.join(CACHE, "mir")
    os.makedirs(tdir, exist_ok=True)
    env = dict(os.environ, CARGO_NET_OFFLINE="true")
    env.pop("RUSTFLAGS", None)
    cmd = ["cargo", "+nightly", "rustc", "--offline", "--lib", "--target-dir", tdir, "--", "-Zunpretty=mir",
           "-C", "debug-assertions=off", "-C", "overflow-checks=on", "--cfg", f"verif_mir_{int(time.time() * 1000)}"]
    p = subprocess.run(cmd, cwd="/repo", env=env, capture_output=True, text=True)
    if p.returncode != 0 or "fn " not in p.stdout:
        raise TranslationError("MIR dump failed: " + p.stderr[-500:])
    return p.stdout


BV = lambda v: f"(_ bv{v} 64)"
# shorthand
DEFS = """
(define-fun fs ((x (_ BitVec 64))) (_ BitVec 64) (fragment_size x))
(define-fun ffs ((x (_ BitVec 64))) (_ BitVec 64) (first_fragment_size x))
(define-fun le ((a (_ BitVec 64)) (b (_ BitVec 64))) Bool (bvule a b))
(define-fun lt ((a (_ BitVec 64)) (b (_ BitVec 64))) Bool (bvult a b))
(define-fun umin ((a (_ BitVec 64)) (b (_ BitVec 64))) (_ BitVec 64) (ite (bvult a b) a b))
; the state of one send: sys = what SO_SNDBUF reports (>= 4096 by the property's quantifier),
; cur = the sender's current, possibly downsized, value
(define-fun inv ((sys (_ BitVec 64)) (cur (_ BitVec 64)) (len (_ BitVec 64)) (pos (_ BitVec 64))) Bool
  (and (bvuge sys (_ bv4096 64)) (bvule sys (_ bv4611686018427387904 64)) (bvuge cur LB) (bvule cur sys) (bvule pos len)))
"""

V = ["sys", "cur", "len", "pos", "a", "b", "n", "x"]
DECL = "\n".join(f"(declare-const {v} (_ BitVec 64))" for v in V) + "\n(declare-const m32 (_ BitVec 32))\n"

# (id, properties, text, premises, claim)
QUERIES = [
    ("sizes_no_panic", ["C01", "C13", "C18"], "fragment_size / first_fragment_size never hit an overflow assertion for any buffer size the sender can reach (>= LB, the lower bound of the downsizing invariant)",
     "(bvuge x LB)", "(and (not (fragment_size!panic x)) (not (first_fragment_size!panic x)))"),
    ("first_fragment_shape", ["C01"], "first_fragment_size(sb) leaves room for the 8-byte header inside a regular fragment, and is positive for every size the sender can reach (>= 48)",
     "(bvuge x LB)",
     "(and (bvule (ffs x) (bvsub (fs x) (_ bv8 64))) (bvugt (ffs x) (_ bv0 64)) (bvugt (fs x) (_ bv0 64)))"),
    ("sizes_monotone", ["C01", "C13"], "both sizes are monotone in the buffer size",
     "(and (bvuge a LB) (bvule a b))", "(and (bvule (fs a) (fs b)) (bvule (ffs a) (ffs b)))"),
    ("header_fits_kernel", ["C01", "C13"], "a first packet (8-byte header + first_fragment_size) and a follow-up (fragment_size) never exceed what the kernel accepts for that buffer size (size - 32)",
     "(bvuge x LB)", "(and (bvule (bvadd (ffs x) (_ bv8 64)) (bvsub x (_ bv32 64))) (bvule (fs x) (bvsub x (_ bv32 64))))"),
    ("downsize_no_panic", ["C13"], "downsize never panics", "true", "(not (downsize!panic a b))"),
    ("downsize_gives_up_cleanly", ["C13"], "when downsize gives up it leaves the size alone (the threshold itself is a policy, not a property)",
     "true", "(=> (not (downsize a b)) (= (downsize!out a b) a))"),
    ("downsize_shrinks", ["C13"], "after a refused attempt of b bytes made with size a (so b <= a-32), the new size is strictly smaller than the attempt and than the old size (progress), and still >= 48, the smallest size for which the fragment sizes are defined",
     "(and (downsize a b) (bvuge a LB) (bvule b (fs a)))",
     "(and (bvult (downsize!out a b) b) (bvult (downsize!out a b) a) (bvuge (downsize!out a b) LB))"),
    ("enter_fragmentation_direct", ["C01"], "a message longer than the single-packet limit starts with a first fragment strictly shorter than the message, within the receiver's first read",
     "(and (inv sys sys len (_ bv0 64)) (bvugt len (ffs sys)))", "(and (bvult (ffs sys) len) (bvule (ffs sys) (ffs sys)) (bvugt (ffs sys) (_ bv0 64)))"),
    ("enter_fragmentation_after_enobufs", ["C13"], "falling back to fragmentation after ENOBUFS on a single-packet attempt: the downsized first fragment is strictly shorter than the message (so the slice is in range and the receiver takes the fragmented path) and fits the receiver's first read",
     "(and (inv sys sys len (_ bv0 64)) (bvule len (ffs sys)) (downsize sys len))",
     "(let ((c (downsize!out sys len))) (and (bvuge c LB) (bvule c sys) (bvult (ffs c) len) (bvule (ffs c) (ffs sys)) (not (first_fragment_size!panic c))))"),
    ("retry_first_fragment", ["C13"], "a refused first fragment is retried with a strictly smaller one that still satisfies the invariant",
     "(and (inv sys cur len (_ bv0 64)) (bvult (ffs cur) len) (downsize cur (ffs cur)))",
     "(let ((c (downsize!out cur (ffs cur)))) (and (bvuge c LB) (bvult c cur) (bvult (ffs c) len) (bvule (ffs c) (ffs sys))))"),
    ("followup_step", ["C01", "C13"], "inductive step of the fragment loop: from any state satisfying the invariant with data left, the next follow-up is non-empty, stays inside the message, fits the receiver's read window min(fragment_size(sys), remaining) and the kernel limit",
     "(and (inv sys cur len pos) (bvult pos len) (bvule len (_ bv4611686018427387904 64)))",
     "(let ((e (umin (bvadd pos (fs cur)) len))) (and (bvugt e pos) (bvule e len) (bvule (bvsub e pos) (umin (fs sys) (bvsub len pos))) (bvule (bvsub e pos) (bvsub sys (_ bv32 64)))))"),
    ("followup_retry", ["C13"], "a refused follow-up is retried with a smaller size that keeps the invariant",
     "(and (inv sys cur len pos) (bvult pos len) (bvule len (_ bv4611686018427387904 64)) (downsize cur (bvsub (umin (bvadd pos (fs cur)) len) pos)))",
     "(let ((c (downsize!out cur (bvsub (umin (bvadd pos (fs cur)) len) pos)))) (and (bvuge c LB) (bvult c cur) (bvule c sys)))"),
    ("cmsg_no_panic", ["C18"], "CMSG_SPACE / CMSG_LEN do not overflow for up to 2^32 descriptors",
     "(bvule n (_ bv4294967296 64))", "(let ((l (bvmul n (_ bv4 64)))) (and (not (CMSG_SPACE!panic l)) (not (CMSG_LEN!panic l))))"),
    ("cmsg_space_covers_len", ["C18"], "the control buffer the sender allocates (CMSG_SPACE) covers the control message it describes (CMSG_LEN), header included",
     "(bvule n (_ bv4294967296 64))", "(let ((l (bvmul n (_ bv4 64)))) (and (bvuge (CMSG_SPACE l) (CMSG_LEN l)) (bvuge (CMSG_LEN l) (_ bv16 64)) (= (bvurem (CMSG_SPACE l) (_ bv8 64)) (_ bv0 64))))"),
    ("cmsg_count_roundtrip", ["C04", "C18"], "the receiver's descriptor count (cmsg_len - CMSG_ALIGN(sizeof cmsghdr)) / 4 inverts the sender's CMSG_LEN(4n)",
     "(bvule n (_ bv4294967296 64))", "(= (bvudiv (bvsub (CMSG_LEN (bvmul n (_ bv4 64))) (CMSG_ALIGN (_ bv16 64))) (_ bv4 64)) n)"),
    ("cmsg_align", ["C18"], "CMSG_ALIGN rounds up to the next multiple of 8",
     "(bvule x (_ bv9223372036854775807 64))", "(and (= (bvurem (CMSG_ALIGN x) (_ bv8 64)) (_ bv0 64)) (bvuge (CMSG_ALIGN x) x) (bvult (bvsub (CMSG_ALIGN x) x) (_ bv8 64)))"),
    ("receive_buffer_holds_max", ["C15", "C18"], "the receiver's control buffer CMSG_SPACE(MAX_FDS_IN_CMSG*4) holds a control message with every count of descriptors the sender lets through (n <= MAX_FDS_IN_CMSG)",
     "(bvule n MAXFDS)", "(bvuge (CMSG_SPACE (bvmul MAXFDS (_ bv4 64))) (CMSG_LEN (bvmul n (_ bv4 64))))"),
    ("s_issock", ["C04"], "S_ISSOCK tests the file-type bits against S_IFSOCK", "true", "(= (S_ISSOCK m32) (= (bvand m32 (_ bv61440 32)) (_ bv49152 32)))"),
]


def solve(prefix, q, solver, timeout=120):
    text = prefix + f"(assert {q[3]})\n(assert (not {q[4]}))\n(check-sat)\n(get-model)\n"
    cmd = ["/usr/bin/z3", "-in", f"-T:{timeout}"] if solver == "z3" else ["cvc5", "--lang", "smt2", "--produce-models", f"--tlimit={timeout * 1000}"]
    t0 = time.time()
    try:
        p = subprocess.run(cmd, input=text, capture_output=True, text=True, timeout=timeout + 30)
        out = p.stdout + p.stderr
    except subprocess.TimeoutExpired:
        out = "timeout"
    dt = time.time() - t0
    first = out.strip().splitlines()[0] if out.strip() else ""
    if first == "unsat":
        return "unsat", dt, {}
    if first == "sat":
        model = {}
        for m in re.finditer(r"\(define-fun (\w+) \(\) \(_ BitVec \d+\)\s+#([xb])([0-9a-fA-F]+)\)", out):
            model[m.group(1)] = int(m.group(3), 16 if m.group(2) == "x" else 2)
        return "sat", dt, model
    return "inconclusive:" + out.strip()[:200].replace("\n", " "), dt, {}


def small_config(sb=64):
    """fragment_size(sb) / first_fragment_size(sb) of the CURRENT tree, by evaluating the translated MIR
    (None where the real function would panic).  The queueing-kernel harnesses report SO_SNDBUF = 64 and
    lay their packets out for the resulting 32- / 24-byte fragments; on a tree whose size functions give
    something else at that (unrealistically small) size they do not apply."""
    t = Translator(dump_mir())
    for f in ("fragment_size", "first_fragment_size"):
        t.translate(f)
    script = "(set-logic ALL)\n" + t.smt() + "\n"
    for f in ("fragment_size", "first_fragment_size"):
        script += f"(simplify ({f}!panic (_ bv{sb} 64)))\n(simplify ({f} (_ bv{sb} 64)))\n"
    z = subprocess.run(["/usr/bin/z3", "-in"], input=script, capture_output=True, text=True).stdout.split()
    out = []
    for i in (0, 2):
        out.append(None if z[i] == "true" else int(z[i + 1][2:], 16))
    return tuple(out)


def validate_translator(prefix, replay_bin, seed=0):
    """Serval-style: the real functions (hook H3, native build of /repo) and their SMT translation are
    evaluated on the same boundary + pseudo-random inputs and must agree, panics included."""
    import random
    rnd = random.Random(seed)
    vals = [0, 1, 7, 8, 15, 16, 31, 32, 39, 40, 47, 48, 255, 256, 260, 999, 1000, 2000, 2001, 4095, 4096, 212992,
            (1 << 32) - 1, 1 << 32, (1 << 63) - 1, 1 << 63, (1 << 64) - 8, (1 << 64) - 1, 0o140000, 0o170000, 0o100644]
    vals += [rnd.getrandbits(rnd.choice([8, 16, 24, 32, 48, 64])) for _ in range(40)]
    p = subprocess.run([replay_bin, "--eval-sizes"] + [str(v) for v in vals], capture_output=True, text=True)
    if p.returncode != 0:
        return dict(ok=False, detail="native evaluation failed: " + p.stderr[-300:], compared=0)
    names = [("fragment_size", 64), ("first_fragment_size", 64), ("CMSG_ALIGN", 64), ("CMSG_LEN", 64), ("CMSG_SPACE", 64), ("S_ISSOCK", 32)]
    script = prefix
    for v in vals:
        for n, w in names:
            arg = f"(_ bv{v % (1 << w)} {w})"
            script += f"(simplify ({n}!panic {arg}))\n"
            script += f"(simplify ({n} {arg}))\n" if n != "S_ISSOCK" else f"(simplify (ite ({n} {arg}) (_ bv1 64) (_ bv0 64)))\n"
    z = subprocess.run(["/usr/bin/z3", "-in"], input=script, capture_output=True, text=True).stdout.split()
    if "(error" in " ".join(z):
        return dict(ok=False, detail="z3 error during evaluation", compared=0)
    lines = p.stdout.strip().splitlines()
    k = 0
    bad = []
    for v, line in zip(vals, lines):
        nat = line.split()[1:]
        for (n, w), nv in zip(names, nat):
            pan, val = z[k], z[k + 1]
            k += 2
            sv = "panic" if pan == "true" else str(int(val[2:], 16) if val.startswith("#x") else int(val[2:], 2))
            if sv != nv:
                bad.append(f"{n}({v}): native {nv} smt {sv}")
    return dict(ok=not bad, detail="; ".join(bad[:5]), compared=len(vals) * len(names))


def run_queries(props=None):
    """returns dict(results=[...], smt=str, functions=[...], mir_s=..., error=...)"""
    t0 = time.time()
    res = dict(results=[], functions=FUNCS, error=None)
    try:
        mir = dump_mir()
        res["mir_s"] = round(time.time() - t0, 1)
        t = Translator(mir)
        for f in FUNCS:
            t.translate(f)
    except TranslationError as e:
        res["error"] = "translation: " + str(e)
        return res
    maxfds = t.consts.get("MAX_FDS_IN_CMSG", (None, 0))[0]
    if maxfds is None:
        res["error"] = "translation: constant MAX_FDS_IN_CMSG not found in the MIR dump"
        return res
    head = "(set-logic ALL)\n(set-option :produce-models true)\n" + t.smt() + "\n"
    tail = DEFS + DECL + f"(define-fun MAXFDS () (_ BitVec 64) (_ bv{maxfds} 64))\n"
    # The invariant of the fragment loop needs a lower bound LB on the sender's current size: any value
    # works that (a) downsizing preserves and (b) keeps the size functions defined.  It is not a constant of
    # the property (it follows from the give-up threshold and the reserved size), so the largest candidate
    # that downsizing preserves on THIS tree is chosen; if none is preserved the smallest is used and the
    # preservation query reports the counterexample.
    chosen = None
    pres = [q for q in QUERIES if q[0] == "downsize_shrinks"][0]
    for cand in (1000, 768, 512, 384, 256, 128, 64, 48):
        pfx = head + f"(define-fun LB () (_ BitVec 64) (_ bv{cand} 64))\n" + tail
        v, _, _ = solve(pfx, pres, "z3")
        if v == "unsat":
            chosen = cand
            break
    res["invariant_lower_bound"] = chosen if chosen is not None else 48
    prefix = head + f"(define-fun LB () (_ BitVec 64) (_ bv{res['invariant_lower_bound']} 64))\n" + tail
    res["smt"] = t.smt()
    res["prefix"] = prefix
    for q in QUERIES:
        if props and not (set(props) & set(q[1])):
            continue
        r = dict(id=q[0], properties=q[1], text=q[2], premises=q[3], claim=q[4])
        # vacuity: the premises must be satisfiable
        vp = subprocess.run(["/usr/bin/z3", "-in", "-T:60"], input=prefix + f"(assert {q[3]})\n(check-sat)\n", capture_output=True, text=True).stdout.strip().splitlines()
        r["premises_satisfiable"] = bool(vp) and vp[0] == "sat"
        z, zt, zm = solve(prefix, q, "z3")
        c, ct, cm = solve(prefix, q, "cvc5")
        r.update(z3=z, z3_s=round(zt, 2), cvc5=c, cvc5_s=round(ct, 2))
        if not r["premises_satisfiable"]:
            r["verdict"] = "inconclusive"
            r["z3"] = "vacuous premises"
        elif z == "unsat" and c == "unsat":
            r["verdict"] = "holds"
        elif z == "sat" and c == "sat":
            r["verdict"] = "counterexample"
            r["model"] = zm
        else:
            r["verdict"] = "inconclusive"
        res["results"].append(r)
    res["wall_s"] = round(time.time() - t0, 1)
    return res


if __name__ == "__main__":
    r = run_queries(sys.argv[1:] or None)
    if r["error"]:
        print("ERROR", r["error"])
        sys.exit(2)
    for q in r["results"]:
        print(f"{q['verdict']:15s} {q['id']:36s} z3={q['z3']}({q['z3_s']}s) cvc5={q['cvc5']}({q['cvc5_s']}s) {q.get('model','')}")
