"""MIR -> SMT-LIB2 translator for the loop-free size arithmetic of the Unix transport (engine E2).

Input : `rustc -Zunpretty=mir` text of /repo (regenerated from the current tree on every run).
Output: for each requested function f, SMT-LIB `define-fun`s over (_ BitVec 64/32):
          f        the returned value
          f!out    the final value of a `&mut usize` parameter (if any)
          f!panic  true iff one of the MIR `assert` terminators (overflow, division by zero) fires
Supported MIR subset (anything else raises TranslationError => the check is inconclusive, never
silently skipped): usize/u32/bool locals; Add/Sub/MulWithOverflow, Add/Sub/Mul (wrapping), BitAnd,
BitOr, BitXor, Not, Div, Rem, Shl, Shr, Eq/Ne/Lt/Le/Gt/Ge; copy/move/const operands; tuple field
projections of the overflow pairs; deref of a `&mut usize` parameter; Result::<(), ()>::Ok/Err;
`as` IntToInt casts between the supported widths; calls to other translated functions and
`std::mem::size_of::<T>()` for T in a small table; terminators goto, switchInt on bool, assert, return.
"""
import re


class TranslationError(Exception):
    pass


SIZE_OF = {"usize": 8, "i32": 4, "u32": 4, "platform::unix::cmsghdr": 16, "cmsghdr": 16}
# values of foreign constants that MIR names but does not define (checked natively by the validator)
EXTERN_CONST = {"libc::S_IFMT": (0o170000, 32), "libc::S_IFSOCK": (0o140000, 32), "S_IFMT": (0o170000, 32), "S_IFSOCK": (0o140000, 32)}
WIDTH = {"usize": 64, "u64": 64, "u32": 32, "i32": 32, "bool": 1}


def bv(v, w):
    return f"(_ bv{v % (1 << w)} {w})"


class Fn:
    def __init__(self, name, params, ret, body):
        self.name, self.params, self.ret, self.body = name, params, ret, body


def split_functions(text):
    fns = {}
    for m in re.finditer(r"^fn ([^\n]*?)\(([^\n]*?)\) -> ([^\n{]+) \{\n(.*?)^\}", text, re.M | re.S):
        fns[m.group(1).strip()] = (m.group(2), m.group(3).strip(), m.group(4))
    consts = {}
    for m in re.finditer(r"^const ([\w:<> ]+): (\w+) = const (\d+)_(\w+);", text, re.M):
        consts[m.group(1).strip()] = (int(m.group(3)), WIDTH[m.group(4)])
    return fns, consts


def find_fn(fns, suffix):
    c = [k for k in fns if k == suffix or k.endswith("::" + suffix)]
    if len(c) != 1:
        raise TranslationError(f"function {suffix}: {len(c)} candidates {c}")
    return c[0]


class Translator:
    def __init__(self, mir_text):
        self.fns, self.consts = split_functions(mir_text)
        self.done = {}   # short name -> (params [(name, width, is_mut_ref)], ret_width)
        self.out = []

    def const(self, tok):
        tok = tok.strip()
        m = re.match(r"^(\d+)_(\w+)$", tok)
        if m:
            return bv(int(m.group(1)), WIDTH[m.group(2)]), WIDTH[m.group(2)]
        if tok in ("true", "false"):
            return tok, 1
        if tok == "()":
            return None, 0
        for k, (v, w) in list(self.consts.items()) + list(EXTERN_CONST.items()):
            if tok == k or tok.endswith("::" + k) or k.endswith("::" + tok):
                return bv(v, w), w
        raise TranslationError(f"unknown constant {tok!r}")

    def translate(self, short):
        if short in self.done:
            return
        full = find_fn(self.fns, short)
        params_s, ret_s, body = self.fns[full]
        params = []
        for p in [x.strip() for x in params_s.split(",") if x.strip()]:
            n, t = p.split(":", 1)
            t = t.strip()
            if t == "&mut usize":
                params.append((n.strip(), 64, True))
            elif t in WIDTH:
                params.append((n.strip(), WIDTH[t], False))
            else:
                raise TranslationError(f"{short}: parameter type {t}")
        if ret_s in WIDTH:
            retw = WIDTH[ret_s]
        elif ret_s in ("Result<(), ()>", "std::result::Result<(), ()>"):
            retw = 1   # true = Ok
        else:
            raise TranslationError(f"{short}: return type {ret_s}")
        types = {}
        for m in re.finditer(r"^\s*let (?:mut )?(_\d+): ([^;]+);", body, re.M):
            types[m.group(1)] = m.group(2).strip()
        blocks = {}
        for m in re.finditer(r"^\s*(bb\d+)(?: \(cleanup\))?: \{\n(.*?)^\s*\}", body, re.M | re.S):
            blocks[m.group(1)] = [l.strip() for l in m.group(2).splitlines() if l.strip()]
        if "bb0" not in blocks:
            raise TranslationError(f"{short}: no bb0")
        self.cur, self.types = short, types
        env = {}
        for (n, w, mut) in params:
            if mut:
                env["*" + n] = (n + "!in", 64)
            else:
                env[n] = (n, w)
        results = []   # (path condition, ret term, out terms, )
        panics = []
        self.walk("bb0", blocks, env, "true", results, panics, 0, params)

        def ite_chain(items, default):
            t = default
            for c, v in reversed(items):
                t = f"(ite {c} {v} {t})"
            return t
        sig = " ".join(f"({n + ('!in' if mut else '')} (_ BitVec {w}))" if w > 1 else f"({n} Bool)" for n, w, mut in params)
        sname = short.replace("::", ".")
        rsort = "Bool" if retw == 1 else f"(_ BitVec {retw})"
        rdef = "false" if retw == 1 else bv(0, retw)
        self.out.append(f"(define-fun {sname}!panic ({sig}) Bool (or false {' '.join(panics)}))")
        self.out.append(f"(define-fun {sname} ({sig}) {rsort} {ite_chain([(c, r) for c, r, _ in results], rdef)})")
        for (n, w, mut) in params:
            if mut:
                self.out.append(f"(define-fun {sname}!out ({sig}) (_ BitVec 64) {ite_chain([(c, o['*' + n]) for c, _, o in results], n + '!in')})")
        self.done[short] = (params, retw)

    # ---- operands / rvalues ---------------------------------------------------------------------
    def operand(self, tok, env):
        tok = tok.strip()
        m = re.match(r"^(?:copy|move) (.+)$", tok)
        if m:
            return self.place(m.group(1).strip(), env)
        m = re.match(r"^const (.+)$", tok)
        if m:
            return self.const(m.group(1))
        raise TranslationError(f"{self.cur}: operand {tok!r}")

    def place(self, p, env):
        p = p.strip()
        m = re.match(r"^\((_\d+)\.(\d): \w+\)$", p)
        if m:
            k = f"{m.group(1)}.{m.group(2)}"
            if k not in env:
                raise TranslationError(f"{self.cur}: read of unset {k}")
            return env[k]
        m = re.match(r"^\(\*(_\d+)\)$", p)
        if m:
            return env["*" + m.group(1)]
        if p in env:
            return env[p]
        raise TranslationError(f"{self.cur}: read of unset place {p!r}")

    def rvalue(self, rv, env):
        rv = rv.strip()
        m = re.match(r"^(\w+)\((.*)\)$", rv)
        if m and m.group(1) in ("AddWithOverflow", "SubWithOverflow", "MulWithOverflow"):
            a, b = self.two(m.group(2), env)
            w = a[1]
            op = {"AddWithOverflow": "bvadd", "SubWithOverflow": "bvsub", "MulWithOverflow": "bvmul"}[m.group(1)]
            val = f"({op} {a[0]} {b[0]})"
            if m.group(1) == "AddWithOverflow":
                ovf = f"(bvult {val} {a[0]})"
            elif m.group(1) == "SubWithOverflow":
                ovf = f"(bvult {a[0]} {b[0]})"
            else:
                wide = f"(bvmul ((_ zero_extend {w}) {a[0]}) ((_ zero_extend {w}) {b[0]}))"
                ovf = f"(not (= ((_ extract {2 * w - 1} {w}) {wide}) {bv(0, w)}))"
            return ("pair", (val, w), (ovf, 1))
        binops = {"Add": "bvadd", "Sub": "bvsub", "Mul": "bvmul", "BitAnd": "bvand", "BitOr": "bvor", "BitXor": "bvxor",
                  "Div": "bvudiv", "Rem": "bvurem", "Shl": "bvshl", "Shr": "bvlshr"}
        cmps = {"Eq": "=", "Ne": "distinct", "Lt": "bvult", "Le": "bvule", "Gt": "bvugt", "Ge": "bvuge"}
        if m and m.group(1) in binops:
            a, b = self.two(m.group(2), env)
            return (f"({binops[m.group(1)]} {a[0]} {b[0]})", a[1])
        if m and m.group(1) in cmps:
            a, b = self.two(m.group(2), env)
            return (f"({cmps[m.group(1)]} {a[0]} {b[0]})", 1)
        if m and m.group(1) == "Not":
            a = self.operand(m.group(2), env)
            return (f"(not {a[0]})", 1) if a[1] == 1 else (f"(bvnot {a[0]})", a[1])
        if rv.startswith("Result::<(), ()>::Ok(") or rv.startswith("std::result::Result::<(), ()>::Ok("):
            return ("true", 1)
        if rv.startswith("Result::<(), ()>::Err(") or rv.startswith("std::result::Result::<(), ()>::Err("):
            return ("false", 1)
        m2 = re.match(r"^(.+) as (\w+) \(IntToInt\)$", rv)
        if m2:
            a = self.operand(m2.group(1), env)
            w = WIDTH[m2.group(2)]
            if w == a[1]:
                return a
            if w > a[1]:
                return (f"((_ zero_extend {w - a[1]}) {a[0]})", w)
            return (f"((_ extract {w - 1} 0) {a[0]})", w)
        if rv.startswith("copy ") or rv.startswith("move ") or rv.startswith("const "):
            return self.operand(rv, env)
        raise TranslationError(f"{self.cur}: rvalue {rv!r}")

    def two(self, s, env):
        depth = 0
        for i, c in enumerate(s):
            if c in "(<":
                depth += 1
            elif c in ")>":
                depth -= 1
            elif c == "," and depth == 0:
                a, b = self.operand(s[:i], env), self.operand(s[i + 1:], env)
                if a[1] != b[1]:
                    raise TranslationError(f"{self.cur}: width mismatch in {s!r}")
                return a, b
        raise TranslationError(f"{self.cur}: binary operands {s!r}")

    def assign(self, lhs, val, env):
        lhs = lhs.strip()
        if isinstance(val, tuple) and val[0] == "pair":
            env[lhs + ".0"], env[lhs + ".1"] = val[1], val[2]
            return
        m = re.match(r"^\(\*(_\d+)\)$", lhs)
        if m:
            env["*" + m.group(1)] = val
            return
        if not re.match(r"^_\d+$", lhs):
            raise TranslationError(f"{self.cur}: assignment to {lhs!r}")
        env[lhs] = val

    def walk(self, bb, blocks, env, pc, results, panics, depth, params):
        if depth > 64:
            raise TranslationError(f"{self.cur}: CFG too deep (loop?)")
        env = dict(env)
        for line in blocks[bb]:
            line = line.rstrip(";")
            if line.startswith("StorageLive") or line.startswith("StorageDead") or line.startswith("nop") or line.startswith("debug "):
                continue
            if line == "return":
                outs = {k: v[0] for k, v in env.items() if k.startswith("*")}
                r = env.get("_0")
                results.append((pc, r[0] if r and r[0] is not None else "true", outs))
                return
            m = re.match(r"^goto -> (bb\d+)$", line)
            if m:
                return self.walk(m.group(1), blocks, env, pc, results, panics, depth + 1, params)
            m = re.match(r"^switchInt\((.+?)\) -> \[0: (bb\d+), otherwise: (bb\d+)\]$", line)
            if m:
                c = self.operand(m.group(1), env)
                if c[1] != 1:
                    raise TranslationError(f"{self.cur}: switchInt on non-bool")
                self.walk(m.group(3), blocks, env, f"(and {pc} {c[0]})", results, panics, depth + 1, params)
                self.walk(m.group(2), blocks, env, f"(and {pc} (not {c[0]}))", results, panics, depth + 1, params)
                return
            m = re.match(r"^assert\((!?)(.+?), \".*?\".*\) -> \[success: (bb\d+), unwind [^\]]+\]$", line)
            if m:
                c = self.operand(m.group(2), env)
                ok = f"(not {c[0]})" if m.group(1) == "!" else c[0]
                panics.append(f"(and {pc} (not {ok}))")
                return self.walk(m.group(3), blocks, env, f"(and {pc} {ok})", results, panics, depth + 1, params)
            m = re.match(r"^(\S+) = (.+?)\((.*)\) -> \[return: (bb\d+), unwind [^\]]+\]$", line)
            if m:
                lhs, callee, args, nxt = m.groups()
                ms = re.match(r"^(?:std|core)::mem::size_of::<(.+)>$", callee)
                if ms:
                    t = ms.group(1)
                    if t not in SIZE_OF:
                        raise TranslationError(f"{self.cur}: size_of::<{t}>")
                    self.assign(lhs, (bv(SIZE_OF[t], 64), 64), env)
                else:
                    short = callee.split("::")[-1]
                    self.translate_nested(short)
                    cparams, retw = self.done[short]
                    argv = [self.operand(a, env) for a in self.split_args(args)]
                    if len(argv) != len(cparams) or any(p[2] for p in cparams):
                        raise TranslationError(f"{self.cur}: call to {callee} with unsupported signature")
                    sname = short.replace("::", ".")
                    argt = " ".join(a[0] for a in argv)
                    panics.append(f"(and {pc} ({sname}!panic {argt}))")
                    pc = f"(and {pc} (not ({sname}!panic {argt})))"
                    self.assign(lhs, (f"({sname} {argt})", retw), env)
                return self.walk(nxt, blocks, env, pc, results, panics, depth + 1, params)
            m = re.match(r"^(\S+|\(\*_\d+\)) = (.+)$", line)
            if m:
                self.assign(m.group(1), self.rvalue(m.group(2), env), env)
                continue
            raise TranslationError(f"{self.cur}: statement {line!r}")
        raise TranslationError(f"{self.cur}: block {bb} has no terminator")

    def translate_nested(self, short):
        saved = (self.cur, self.types)
        self.translate(short)
        self.cur, self.types = saved

    @staticmethod
    def split_args(s):
        out, depth, cur = [], 0, ""
        for c in s:
            if c in "(<":
                depth += 1
            elif c in ")>":
                depth -= 1
            if c == "," and depth == 0:
                out.append(cur)
                cur = ""
            else:
                cur += c
        if cur.strip():
            out.append(cur)
        return out

    def smt(self):
        return "\n".join(self.out)


if __name__ == "__main__":
    import sys
    t = Translator(open(sys.argv[1]).read())
    for f in sys.argv[2:]:
        t.translate(f)
    print(t.smt())
