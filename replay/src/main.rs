//! Native replay: `replay <harness> [values.json | --random <seed>]`
//! values.json = [[bytes...], ...] in the order Kani's concrete playback lists them.
//! exit 0: harness ran to its end; 101: panic (assertion or crate panic) = reproduced;
//! 77: blocks for ever where that is a violation; 78: an assumption of the harness does not hold
//! (values do not describe a valid case); 79: values do not fit the harness.
/// `replay --eval-sizes v...`: the real size functions (through hook H3) on the given inputs, one
/// line per input: v fragment_size first_fragment_size CMSG_ALIGN CMSG_LEN CMSG_SPACE S_ISSOCK
/// ("panic" where the real function panics) — the translator validation compares these with the
/// SMT model of the same functions.
fn eval_sizes(vals: &[String]) {
    use ipc_channel::platform::verif_hooks as ph;
    std::panic::set_hook(Box::new(|_| {}));
    fn show<T: std::fmt::Display>(r: std::thread::Result<T>) -> String {
        match r {
            Ok(v) => v.to_string(),
            Err(_) => "panic".to_string(),
        }
    }
    for v in vals {
        let x: usize = v.parse().unwrap();
        println!(
            "{} {} {} {} {} {} {}",
            x,
            show(std::panic::catch_unwind(|| ph::fragment_size(x))),
            show(std::panic::catch_unwind(|| ph::first_fragment_size(x))),
            show(std::panic::catch_unwind(|| ph::cmsg_align(x))),
            show(std::panic::catch_unwind(|| ph::cmsg_len(x))),
            show(std::panic::catch_unwind(|| ph::cmsg_space(x))),
            show(std::panic::catch_unwind(|| ph::s_issock(x as u32) as u8)),
        );
    }
}

fn main() {
    let a: Vec<String> = std::env::args().collect();
    if a.len() >= 2 && a[1] == "--eval-sizes" {
        eval_sizes(&a[2..]);
        return;
    }
    if a.len() < 2 {
        eprintln!("usage: replay <harness> [values.json | --random <seed>]");
        std::process::exit(2);
    }
    let f = match ipcv::lookup(&a[1]) {
        Some(f) => f,
        None => {
            println!("REPLAY-NO-SUCH-HARNESS {}", a[1]);
            std::process::exit(2);
        },
    };
    if a.len() >= 4 && a[2] == "--random" {
        ipcv::nk::load_random(a[3].parse().unwrap());
    } else if a.len() >= 3 {
        let txt = std::fs::read_to_string(&a[2]).unwrap();
        // tiny JSON reader for [[n,n,...],...]
        let mut vals: Vec<Vec<u8>> = Vec::new();
        let mut cur: Option<Vec<u8>> = None;
        let mut num = String::new();
        let mut depth = 0;
        for c in txt.chars() {
            match c {
                '[' => {
                    depth += 1;
                    if depth == 2 {
                        cur = Some(Vec::new());
                    }
                },
                ']' => {
                    if !num.is_empty() {
                        cur.as_mut().unwrap().push(num.parse().unwrap());
                        num.clear();
                    }
                    if depth == 2 {
                        vals.push(cur.take().unwrap());
                    }
                    depth -= 1;
                },
                ',' => {
                    if !num.is_empty() {
                        cur.as_mut().unwrap().push(num.parse().unwrap());
                        num.clear();
                    }
                },
                d if d.is_ascii_digit() => num.push(d),
                _ => {},
            }
        }
        ipcv::nk::load(vals);
    }
    f();
    println!("REPLAY-END-REACHED");
}
