"""Harness and property tables (what runs for which property, with which bounds)."""

HARNESSES = {}


def H(name, props, features="k_q", tier="quick", timeout=900, mem_gb=14, loops=None, sym="", bounds="", **kw):
    HARNESSES[name] = dict(props=props, features=features, tier=tier, timeout=timeout, mem_gb=mem_gb, loops=loops or {},
                           sym=sym, bounds=bounds, **kw)


# ---- C16 -------------------------------------------------------------------------------------
_c16_sym = "payload bytes[17] and length 0..=17 symbolic; attachment list structure concrete per harness (name suffix = channels,regions)"
_c16_b = "unwind 19; bytes <= 17; <= 2 channel and <= 2 region attachments"
for n in ["c16_u8_00", "c16_u32pair_00", "c16_opt_u8_00", "c16_enum3_00", "c16_vec_u8_00", "c16_u8_10", "c16_u8_01",
          "c16_u8_21", "c16_sender_00", "c16_sender_10", "c16_sender_21", "c16_sender_pair_10", "c16_sender_pair_20",
          "c16_receiver_10", "c16_receiver_20", "c16_shm_00", "c16_shm_01", "c16_shm_02", "c16_shm_pair_01",
          "c16_shm_pair_02", "c16_mixed_11", "c16_drop_undecoded_21"]:
    # with no attachment of the right kind no payload can decode successfully
    opt = ["REACH_OK"] if n in ("c16_sender_00", "c16_shm_pair_01", "c16_sender_pair_10") else []
    H(n, ["C16"], sym=_c16_sym, bounds=_c16_b, opt=opt)

PROPERTIES = {
    "C16": dict(
        bounds="payload <= 17 bytes (bincode reads are positional: longer inputs add no new library code), <= 2 channels + <= 2 regions attached, 10 expected types",
        outside="payloads of 18..4096 bytes, String targets, > 2 attachments of a kind",
        assumptions=["undecoded messages are built through hook H3 (OpaqueIpcMessage::new) instead of a transport"],
    ),
}

# ---- send_plan (C01, C02, C13 sending side) -----------------------------------------------------
_sp_sym = "reported SO_SNDBUF in [4096, 2^24], message length in [0, 2^26], ENOBUFS pattern over the first 8 attempts (where named _enobufs)"
_sp_b = "unwind 12; <= 10 transmission attempts per send (model capacity, more = outside the bound); attachments: none or sender+receiver+zero-length region"
H("send_plan_noatt_nofault", ["C01", "C02"], features="k_rec", sym=_sp_sym, bounds=_sp_b, opt=["REACH_ERR"])
H("send_plan_att_nofault", ["C01", "C02", "C04"], features="k_rec", sym=_sp_sym, bounds=_sp_b, opt=["REACH_ERR"])
H("send_plan_noatt_enobufs", ["C13", "C02"], features="k_rec", sym=_sp_sym, bounds=_sp_b, timeout=1800)
H("send_plan_att_enobufs", ["C13"], features="k_rec", sym=_sp_sym, bounds=_sp_b, timeout=1800)
PROPERTIES.update({
    "C01": dict(bounds="", outside="", assumptions=[]),
    "C02": dict(bounds="", outside="", assumptions=[]),
    "C13": dict(bounds="", outside="", assumptions=[]),
})

# ---- byte-exact round trips (C01, C02 sequential core, C18) ------------------------------------
_rt_sym = "message CONTENTS symbolic; length concrete per harness (name suffix); reported SO_SNDBUF 64 => first fragment 24 bytes, follow-ups 32"
for n, t in [("rt_bytes_0", "quick"), ("rt_bytes_1", "quick"), ("rt_bytes_23", "thorough"), ("rt_bytes_24", "quick"),
             ("rt_bytes_25", "quick"), ("rt_bytes_55", "thorough"), ("rt_bytes_56", "quick"), ("rt_bytes_57", "quick"),
             ("rt_bytes_87", "thorough"), ("rt_bytes_88", "thorough"), ("rt_bytes_89", "quick")]:
    H(n, ["C01", "C18"], tier=t, sym=_rt_sym, bounds="unwind 6; 1..4 packets")
for n in ["rt_two_1_57", "rt_two_57_24", "rt_two_25_25"]:
    H(n, ["C02"], sym=_rt_sym, bounds="unwind 6; two messages from two handles of one channel")
for n in ["ipc_val_u8", "ipc_val_u64", "ipc_val_tuple_some", "ipc_val_tuple_none", "ipc_val_enum_a", "ipc_val_enum_b", "ipc_val_enum_c", "ipc_val_arr4",
          "ipc_val_f64", "ipc_val_vec_0", "ipc_val_vec_3", "ipc_val_arr32", "ipc_bytes_0", "ipc_bytes_8"]:
    H(n, ["C01"], sym="the sent VALUE symbolic (type in the name); reported SO_SNDBUF 64", bounds="unwind 8 (40 for arr32); value SHAPE (variant / Option tag / Vec length) concrete per harness, data symbolic")

# ---- shared memory (C05, C18) ------------------------------------------------------------------
for n in ["shm_platform_1_1", "shm_platform_3_2_clone", "shm_platform_8_5_clone2_swapped"]:
    H(n, ["C05", "C18"], sym="region contents and fill byte symbolic; lengths (name suffix), clone count and order concrete",
      bounds="unwind 10; lengths <= 8; 2 regions per message")
for n in ["shm_ipc_0", "shm_ipc_3", "shm_ipc_8"]:
    H(n, ["C05"], sym="region contents and fill byte symbolic; IpcSharedMemory through ipc::channel, length in the name", bounds="unwind 10")
for n in ["shm_zero_from_bytes", "shm_zero_from_byte", "shm_zero_received"]:
    H(n, ["C18"], sym="zero-length OsIpcSharedMemory at the platform level: create, Deref, clone, ==, send/receive", bounds="unwind 10")

# ---- vanished receivers (C09) -------------------------------------------------------------------
for n in ["gone_dropped_small", "gone_dropped_small_att", "gone_dropped_multi_att", "gone_ipc_dropped"]:
    H(n, ["C09"], sym="payload bytes symbolic; scenario (dropped / in transit / transit then carrier dropped / transit then unpacked), shape (3 or 57 bytes) and attachment concrete",
      bounds="unwind 6; 1 or 3 packets; <= 1 attachment")

# ---- receive modes (C10) -------------------------------------------------------------------------
H("modes_try_recv_sequence", ["C10", "C03"], sym="message values symbolic; call sequence concrete", bounds="unwind 8")
H("modes_try_recv_multi", ["C10"], sym="57 payload bytes symbolic", bounds="unwind 8")
H("modes_timeout_arith", ["C10"], sym="Duration fully symbolic (secs: u64, nanos < 1e9); poll(2) stub reports time-out", bounds="unwind 8")
H("modes_timeout_ready", ["C10"], sym="wait in ms and message value symbolic", bounds="unwind 8")
H("modes_recv_after_try", ["C10"], sym="none (call sequence)", bounds="unwind 8")

# ---- attachments (C04) ---------------------------------------------------------------------------
# (end-to-end attach_platform_* / attach_ipc_* / gone_transit_* harnesses exist in h_attach.rs / h_gone.rs and pass
#  natively, but a value read back from a heap-allocated enum (Vec<OsIpcChannel>) is never a constant for CBMC's
#  symbolic executor, which turns the whole model state symbolic: they ran out of memory. The property is decided
#  in two halves against a shared interface instead: sending side over the recording kernel (send_plan_att_*),
#  receiving side with packets injected by plain system calls (recv_att_*, transit_*).)
for n in ["recv_att_1s", "recv_att_2s_1r", "recv_att_2s_2r_multi", "recv_att_1s_multi25"]:
    H(n, ["C04"], sym="payload bytes and probe bytes symbolic; layout (sockets, regions, packets) concrete; packets injected as send_plan shows the sender emits them",
      bounds="unwind 6; <= 2 sockets + 2 regions; 1..3 packets")
for n in ["transit_queued_small", "transit_queued_multi", "transit_carrier_dropped_small", "transit_carrier_dropped_multi", "transit_unpacked_small", "transit_unpacked_multi",
          "transit_unpacked_fd0_dropped_small", "transit_unpacked_fd0_dropped_multi"]:
    H(n, ["C09"], sym="payload bytes symbolic; scenario and shape (3 / 57 bytes) concrete; the travelling receiver is injected by plain system calls", bounds="unwind 6")
for n in ["crash_after_0_nosurv", "crash_after_1_nosurv", "crash_after_2_nosurv_try", "crash_after_3_nosurv", "crash_after_1_surv", "crash_after_2_surv_try", "crash_after_3_surv"]:
    H(n, ["C12"], sym="payload bytes symbolic; the dying sender's packets are the prefixes (0..3 packets) of the 3-packet plan, then all its descriptors are closed; survivor handle and observer (recv / try_recv) concrete",
      bounds="unwind 6; 3-packet message, <= 1 attachment")
for n in ["many_63_single", "many_64_single", "many_65_single", "many_63_frag", "many_64_frag", "many_66_frag"]:
    # > 64 descriptors in all: outside the sender's contract; the receiver may hang there (end unreachable)
    over = n in ("many_65_single", "many_64_frag", "many_66_frag")
    H(n, ["C15", "C18"], features="k_q,bigfd", timeout=1800, sym="payload bytes symbolic; N descriptors (name) + dedicated channel if fragmented, injected", bounds="unwind 72",
      opt=["TRUNCATED", "REACH_END"] if over else ["TRUNCATED"], end_optional=over)
for n in ["send_many_63_single", "send_many_64_single", "send_many_65_single", "send_many_63_frag", "send_many_64_frag", "send_many_64_enobufs"]:
    H(n, ["C15"], features="k_rec,bigfd", timeout=1800, sym="attachment count n in the name; shapes: 1 byte / 25 bytes (2 packets) / 3000 bytes with the first attempt refused", bounds="unwind 72",
      opt=["REACH_OK", "REACH_ERR"])
PROPERTIES.update({k: dict(bounds="", outside="", assumptions=[]) for k in ["C12", "C15"]})
PROPERTIES.update({k: dict(bounds="", outside="", assumptions=[]) for k in ["C03", "C04", "C05", "C09", "C10", "C18"]})

# ---- failed / nested sends (C14) -----------------------------------------------------------------
for n in ["ser_fail_visit0", "ser_fail_visit1", "ser_fail_visit2", "ser_fail_visit3"]:
    H(n, ["C14"], features="k_rec", sym="later message's value symbolic; number of embedded endpoints visited before the serialisation error concrete (name)", bounds="unwind 8; value with sender, region, sender")
for n in ["ser_nested_ok", "ser_nested_inner_fails", "ser_nested_regions_ok", "ser_nested_regions_inner_fails", "ser_nested_inner_refused", "ser_nested_regions_inner_refused"]:
    H(n, ["C14", "C05"] if "regions" in n else ["C14"], features="k_rec", sym="none (structure): a send inside a Serialize impl between two attachments of the enclosing value; the inner send completes / fails", bounds="unwind 8; nesting depth 2")
PROPERTIES.update({k: dict(bounds="", outside="", assumptions=[]) for k in ["C14"]})

# ---- error paths and close-on-exec (C11) ---------------------------------------------------------
for n in ["err_channel_emfile", "err_send_dedicated_emfile", "err_connect_fails", "cloexec_created", "cloexec_received", "cloexec_received_try", "cloexec_received_timeout"]:
    H(n, ["C11"], sym="payload bytes symbolic; which descriptor-creating call fails is concrete per harness", bounds="unwind 6..10")
PROPERTIES.update({k: dict(bounds="", outside="", assumptions=[]) for k in ["C11"]})

for n in ["recv_short_57_a", "recv_short_89_b", "recv_short_60_c", "recv_short_20_d", "recv_short_24_e"]:
    H(n, ["C01", "C13", "C18", "C02"], sym="message contents symbolic; a valid plan with follow-ups SHORTER than the receiver's window (what the sender emits after ENOBUFS shrank its fragment size), injected; boundaries concrete (name)",
      bounds="unwind 8; 2..5 packets; totals 20 and 24 are messages that fit one packet but were re-fragmented")
# ---- handle histories (C03) ------------------------------------------------------------------------
for n in ["hist_clone_then_drop_original", "hist_queue_then_drop", "hist_three_handles", "hist_clone_dropped_at_once"]:
    H(n, ["C03"], sym="bytes sent symbolic; the history (clone / drop / send on up to 3 handles) concrete per harness, observed by try_recv after every step",
      bounds="unwind 8; <= 6 operations, <= 3 sender handles")
for n in ["transit_queued_small", "transit_carrier_dropped_small", "transit_unpacked_small", "crash_after_0_nosurv", "crash_after_3_surv"]:
    HARNESSES[n]["props"].append("C03")


# ================================================================================================
# per-property text for the evidence files and MANIFEST.json
_A_KQ = "queueing model kernel kani/src/kq.rs stands in for Linux (DESIGN §3): SOCK_SEQPACKET packet boundaries and FIFO order, atomic sends, SCM_RIGHTS in-flight references, EOF iff no sender reference is left, EPIPE to a dead peer (SIGPIPE not modelled), control-buffer truncation, poll(2) readiness from the requested events"
_A_REC = "recording model kernel kani/src/krec.rs: transmissions are logged (descriptor, header word, source address, length, attached descriptors, first 40 payload bytes), nothing is delivered; a datagram is accepted iff the ENOBUFS variable says so"
_A_INJ = "on the receiving side packets are injected with plain system calls in exactly the shape send_plan_* show the real sender emits (header = total length, user descriptors in order, dedicated channel last iff fragmented, follow-ups on it) — values read back from a heap-allocated enum (Vec<OsIpcChannel>) are never constants for CBMC's symbolic executor, so the crate's own send is not used to produce attachments there"
PROPERTIES = {
    "C01": dict(
        bounds="send side (send_plan_*): reported SO_SNDBUF in [4096, 2^24], length in [0, 2^26], <= 10 transmission attempts, no ENOBUFS; receive side + composition (rt_bytes_*, ipc_val_*): SO_SNDBUF 64, concrete lengths {0,1,24,25,56,57,89} (thorough adds 23,55,87,88), contents symbolic; 8 value types; M-queries: all 64-bit sizes, any number of fragments (inductive step)",
        outside="more than 10 attempts except through the M-query induction (premise: the loop skeleton used there is the one send_plan_* check against the real loop); receive-side reassembly at symbolic sizes (covered by the window arithmetic M-queries and concrete-size round trips only); String/map values; memfd build, in-process / macOS / Windows transports; real socket-buffer back-pressure",
        assumptions=[_A_REC, _A_KQ]),
    "C02": dict(
        bounds="one-enqueue invariant from send_plan_* (every send puts exactly one packet, its first successful one, on the channel's own socket; everything else goes to a socket pair created inside that call); two messages from two handles in sequence (rt_two_*: lengths 1/57, 57/24, 25/25)",
        outside="real thread / process interleavings (Kani is sequential): covered only by the stated reduction argument — the shared queue is touched by one atomic enqueue per message; receiver sets; other transports",
        assumptions=[_A_REC, _A_KQ, "reduction argument (DESIGN §5 C02) is stated, not machine-checked"]),
    "C03": dict(
        bounds="4 concrete histories of clone / drop / send on <= 3 sender handles observed by try_recv after every step; handles in transit inside queued messages (transit_*); dying senders with and without a surviving handle (crash_*); message-before-disconnection order (modes_try_recv_sequence)",
        outside="symbolic histories (3 symbolic steps ran out of memory), > 6 operations, > 1 carrier channel, a blocked recv woken by a concurrent last drop (threads), other transports",
        assumptions=[_A_KQ, _A_INJ]),
    "C04": dict(
        bounds="sending side: descriptor list = user attachments in value order, dedicated channel last (send_plan_att_*: 3 attachments, all lengths/buffer sizes); receiving side: <= 2 sockets + 2 regions, 1..3 packets, identity by kernel object, each received endpoint works (recv_att_*); count formula inverts CMSG_LEN (M-query)",
        outside="end-to-end through one send+recv pair with attachments (harnesses attach_platform_* / attach_ipc_* exist and pass natively, but run out of memory under CBMC); ipc-layer index placement (see C14 ser_* for the serialising half, C16 for the decoding half); > 3 attachments except the counts of C15; hop chains",
        assumptions=[_A_REC, _A_KQ, _A_INJ]),
    "C05": dict(
        bounds="region lengths 1..8 (platform) and 0,3,8 (ipc), contents and fill byte symbolic; 0..2 clones; 2 regions per message in both orders; read after the sender's copies and the channel are gone; regions around a nested send (ser_nested_regions_*)",
        outside="lengths > 8 (the crate does no page arithmetic: the length flows unchanged into ftruncate/mmap/fstat), forked receivers, memfd build, in-process transport",
        assumptions=[_A_KQ, "shared memory = one allocation of exactly the region's length, shared by all mappings, freed when the last descriptor and mapping are gone"]),
    "C09": dict(
        bounds="receiver dropped / in transit / in transit with the carrier dropped / unpacked, x 3-byte and 57-byte (3-packet) messages, with and without one attachment (dropped case); IpcSender and IpcBytesSender error propagation",
        outside="process termination by SIGPIPE (model rule 4: not modelled), other threads/processes dropping concurrently, in-process transport",
        assumptions=[_A_KQ, _A_INJ]),
    "C10": dict(
        bounds="call sequences try_recv x4 around send/drop, multi-packet try_recv, try_recv_timeout for EVERY Duration (secs: u64, nanos < 1e9: the poll(2) time-out is floor(ms) or -1 when it does not fit i32), readiness during the wait, blocking mode restored after every call incl. error paths, recv after try_recv reaches the blocking state",
        outside="real elapsed time; a sender that is mid-message in another thread",
        assumptions=[_A_KQ, "poll(2) stub: readiness computed from the requested event mask; 'time-out' is a verdict of the stub"]),
    "C11": dict(
        bounds="ledger epilogue (nothing open, nothing mapped, no close of a non-open descriptor) in every harness of every property; EMFILE at channel() and at the dedicated channel of a multi-packet send; connect(2) failing; close-on-exec on created, cloned and received descriptors",
        outside="temp files and the one-shot server (C08), router, /proc views, 10^5 repetitions (a per-operation leak is visible in one operation under the ledger)",
        assumptions=[_A_KQ, "descriptor numbers are never reused by the model, so a double close is always EBADF"]),
    "C12": dict(
        bounds="3-packet message (57 bytes), sender dying after 0,1,2,3 packets got out (the prefixes of the plan send_plan_* establish), with/without one attachment, 0 or 1 surviving sender handle, observed by recv and try_recv; an earlier complete message must survive",
        outside="death of the receiver; observation through a router (threads); shapes of > 3 packets (same loop); through a receiver set: one crashed member next to one healthy member, crash after 1 or 2 packets",
        assumptions=[_A_KQ, _A_INJ, "a crash point between two system calls is observable only through the packets already sent: the sender's packet sequence prefix + closing all its descriptors"]),
    "C06": dict(
        bounds="sequential core on concrete scripts with symbolic payloads: 1..3 members, 1 or 2 selects per harness, messages of 1 and 2 packets; traffic queued before add (one and two messages, send order); a closure with nothing queued, a closure after a last message (message first, then exactly one closed event), the surviving member still served under its own id; ids pairwise distinct; the model's epoll is EDGE-triggered (a readiness edge is reported once) and flags a lost wake-up whenever a wait would block while a registered endpoint still has an unread packet or an unreported hang-up; a member whose sender died mid-message (C12); a backlog of 65 messages on one member drained by one select",
        outside="interleavings of sender threads with the selecting thread (Kani does not encode threads: every script here is one sequential history); more ready members than mio's event buffer (10) - the model's epoll holds 4 registrations; EINTR at other waits than the first; more than two selects in a row; the ipc-level wrapper IpcReceiverSet (iterator adaptors over the result enum: did not finish); the in-process, macOS and Windows back ends",
        assumptions=[_A_KQ, _A_INJ, "hook H4: under cfg(kani) the member table (HashMap<Token, PollEntry>) is an association list with the same insert/get/remove/values surface - std's HashMap is trusted to be a map", "mio's Poll/Registry/Events/SourceFd code is the real one, compiled by Kani, over the model's epoll_create1/epoll_ctl/epoll_wait", "the set is forgotten, not dropped, at the end of each harness (std's OwnedFd debug check calls variadic fcntl with two arguments: kani-compiler ICE); the ledger accounts for the epoll descriptor and the members still registered", "rxset_one_member_eintr and rxset_add_refused only: std::io::Error::kind / raw_os_error are stubbed to answer from the model's errno (io::Error packs the code into pointer bits, which CBMC does not constant-fold: the unstubbed harness ran out of memory)", "select results are read in place and not dropped (non-constant enum discriminants, see DESIGN §2 lesson 4); the descriptor ledger shows that nothing was attached to them"]),
    "C13": dict(
        bounds="quick: every ENOBUFS pattern over the first 4 attempts (symbolic mask), lengths <= 2^22, buffer sizes in [4096, 2^20], <= 6 attempts, with and without 3 attachments, + concrete refused-first-fragment shapes and short follow-ups on the receive side; thorough: 8 mask bits, lengths <= 2^26, buffer sizes <= 2^24, <= 10 attempts; M-queries: downsize and the retry steps for all 64-bit values",
        outside="patterns beyond the masked attempts (M-query induction only); byte-exact delivery under ENOBUFS (the receive side accepts every valid plan: rt_bytes_* + window M-queries)",
        assumptions=[_A_REC]),
    "C14": dict(
        bounds="serialisation failing after 0,1,2,3 of (sender, region, sender) were visited, followed by an unrelated send; a complete / a failing send nested inside a Serialize impl between two sender attachments and between two region attachments (depth 2)",
        outside="depth 3; a receive nested inside Deserialize; OS-level send failures (C09/C11 cover their ledger)",
        assumptions=[_A_REC, "hook H3 ipc::verif_hooks::serialization_tables_len is used as an additional, stricter observer; the observable consequence (descriptor closed once the program's handles are gone) is asserted too"]),
    "C15": dict(
        bounds="sending side: 63/64/65 attachments x {1 byte, 2 packets, 3000 bytes with the first attempt refused}: no header packet with > 64 descriptors, Ok => everything went out, channel usable afterwards; receiving side: 63/64 (+ dedicated) delivered complete, 65 / 64+1 / 66+1 examined for memory safety only; M-query receive_buffer_holds_64",
        outside="other attachment kinds than sockets (the kind does not enter the count), counts 67..300 (same path as 66)",
        assumptions=[_A_REC, _A_KQ, _A_INJ]),
    "C16": dict(
        bounds="payload <= 17 symbolic bytes of symbolic length (bincode reads are positional: longer inputs add no new library code), <= 2 channel and <= 2 region attachments, 10 expected types incl. endpoints, regions and pairs of them; dropping an undecoded message",
        outside="payloads of 18..4096 bytes, String targets, > 2 attachments of a kind",
        assumptions=[_A_KQ, "undecoded messages are built through hook H3 (OpaqueIpcMessage::new) instead of a transport"]),
    "C18": dict(
        bounds="CBMC's memory model (pointer validity, object bounds, use after free, double free) over every unsafe block reached by: byte-exact round trips at the boundary lengths, regions of length 0..8 incl. zero-length at the platform level, 63..66 descriptors against the receiver's control buffer, truncated transfers (crash_*); M-queries on CMSG_* arithmetic for up to 2^32 descriptors",
        outside="AddressSanitizer semantics proper (CBMC's memory model stands in); allocation failure (Kani: malloc never fails); 'every byte written' beyond the byte-exact round trips (-Z uninit-checks ICEs in this Kani)",
        assumptions=[_A_KQ]),
}

for n in ["send_many_64_frag", "send_many_64_enobufs", "send_many_63_frag"]:
    HARNESSES[n]["props"].append("C04")

# failed multi-packet sends must not leak (ledger of these harnesses is C11 evidence proper)
for n in ["gone_dropped_multi_att", "gone_dropped_small_att", "transit_carrier_dropped_multi"]:
    HARNESSES[n]["props"].append("C11")

# the trace extraction of the full-width send harnesses costs ~10 min per failing check
for n in ["send_plan_noatt_nofault", "send_plan_att_nofault", "send_plan_noatt_enobufs", "send_plan_att_enobufs"]:
    HARNESSES[n]["max_examined"] = 1

# the full-width send harnesses take 5-10 min each: every property runs the one(s) that carry its own
# claim in the quick tier and the others only in the thorough tier
HARNESSES["send_plan_noatt_nofault"]["props"] = ["C01", "C02", "C13"]
HARNESSES["send_plan_noatt_nofault"]["tiers"] = {"C13": "thorough"}
HARNESSES["send_plan_att_nofault"]["props"] = ["C04", "C01", "C02"]
HARNESSES["send_plan_att_nofault"]["tiers"] = {"C01": "thorough", "C02": "thorough"}
HARNESSES["send_plan_noatt_enobufs"]["props"] = ["C13", "C02", "C01"]
HARNESSES["send_plan_noatt_enobufs"]["tiers"] = {"C02": "thorough", "C01": "thorough"}
HARNESSES["send_plan_att_enobufs"]["props"] = ["C13", "C04"]
HARNESSES["send_plan_att_enobufs"]["tiers"] = {"C04": "thorough"}

H("c14_de_nested_channels", ["C14"], sym="inner value symbolic; a receive nested inside a Deserialize impl between two CHANNELS of the enclosing message; the nested message carries a third", bounds="unwind 14; depth 2")
H("c14_de_nested", ["C14"], sym="inner value symbolic; a receive (OpaqueIpcMessage::to) nested inside a Deserialize impl between two regions of the enclosing message", bounds="unwind 14; depth 2")
HARNESSES["shm_zero_received"]["props"].append("C05")
for n in ["ser_fail_visit1", "ser_fail_visit3"]:
    HARNESSES[n]["props"].append("C03")   # retained clones keep a channel connected for ever
HARNESSES["send_plan_noatt_enobufs"]["tiers"] = {"C02": "thorough"}   # quick for C01 too: it runs in parallel with the no-fault one

# quick-tier variants of the ENOBUFS plan harnesses (reduced ranges); the full-range ones are thorough only
H("send_plan_noatt_enobufs_q", ["C13", "C01"], features="k_rec", timeout=1500, max_examined=1,
  sym="reported SO_SNDBUF in [4096, 2^20], length in [0, 2^22], ENOBUFS pattern over the first 4 attempts", bounds="unwind 8; <= 6 transmission attempts per send")
H("send_plan_att_enobufs_q", ["C13"], features="k_rec", timeout=1500, max_examined=1,
  sym="reported SO_SNDBUF in [4096, 2^20], length in [0, 2^22], ENOBUFS pattern over the first 4 attempts; 3 attachments", bounds="unwind 8; <= 6 transmission attempts per send")
for n in ["send_plan_noatt_enobufs", "send_plan_att_enobufs"]:
    HARNESSES[n]["tier"] = "thorough"
    HARNESSES[n]["tiers"] = {}
    HARNESSES[n]["timeout"] = 2400

for n in ["send_plan_noatt_enobufs_q", "send_plan_att_enobufs_q", "send_plan_noatt_nofault", "send_plan_att_nofault", "send_plan_noatt_enobufs", "send_plan_att_enobufs"]:
    HARNESSES[n]["mem_gb"] = 30   # a mutated sender made the 14 GB default run out of memory (=> inconclusive, not a verdict)

for n in ["modes_timeout_zero", "modes_timeout_1ns", "modes_timeout_sub_ms", "modes_timeout_1ms", "modes_timeout_mixed"]:
    H(n, ["C10"], sym="none: one concrete duration (0, 1 ns, 999999 ns, 1 ms, 2.500000001 s) on an idle connected channel", bounds="unwind 8")
H("modes_timeout_interrupted", ["C10"], sym="message value symbolic; the timed wait on an idle channel is interrupted by a signal (poll returns EINTR once)", bounds="unwind 8")
H("modes_timeout_queued_then_hangup", ["C10", "C03"], sym="message bytes symbolic; a timed receive when data and the hang-up are both pending", bounds="unwind 8")

for n in ["send_retry_first_single_att", "send_retry_first_frag_att", "send_retry_first_frag_noatt"]:
    H(n, ["C13", "C04"], features="k_rec", sym="none (shape): 3000 / 9000 bytes with reported SO_SNDBUF 8192, the first one or two attempts refused with ENOBUFS, 0 or 2 attachments",
      bounds="unwind 12", opt=["REACH_ERR"])

H("ser_receivers_move", ["C04", "C03", "C09"], features="k_rec", sym="none (shape): a value (IpcReceiver, OpaqueIpcSender, OpaqueIpcReceiver) through ipc::channel; descriptor order, indices, and which local descriptors are closed after the send", bounds="unwind 8")
H("ser_mixed_indices", ["C04", "C05"], features="k_rec", sym="none (shape): a value (sender, region, sender, region) through ipc::channel; payload indices and descriptor order observed on the wire", bounds="unwind 8")
for n in ["send_moves_receiver_small", "send_moves_receiver_frag", "send_moves_receiver_retry"]:
    H(n, ["C03", "C09", "C11"], features="k_rec", sym="none (shape): 100 / 9000 / 3000 bytes with reported SO_SNDBUF 8192 (one packet, several, first attempt refused); a receiving end and a clone of a sending end attached",
      bounds="unwind 12")

# ---- receiver set (C06; C12 observed through a set) ----------------------------------------------
# The real OsIpcReceiverSet over mio's real Poll/Registry/Events code and the model's edge-triggered epoll; hook H4
# replaces the member table's hashbrown map by an association list under cfg(kani).  One or two selects per harness:
# cost grows steeply with the number of selects (rxset_two_members, three selects, does not finish in 25 min).
_set_sym = "payload bytes symbolic; the script (members, who gets what, when a sender goes away, when select is called) concrete per harness"
_set_b = "unwind 14; <= 3 members, <= 2 selects, messages of 1 and 2 packets"
for n in ["rxset_one_member", "rxset_multi_then_small", "rxset_two_multi", "rxset_closed_then_other", "rxset_add_queued_two", "rxset_id_after_close"]:
    H(n, ["C06"], sym=_set_sym, bounds=_set_b)
H("rxset_backlog_65", ["C06"], features="k_q,bigq", timeout=1500, sym="the last message's byte symbolic; 65 one-byte messages queued on one member before the wait, then its sender goes away", bounds="unwind 70; model configuration bigq (70 packets in flight)")
H("rxset_add_refused", ["C11", "C06"], sym=_set_sym + "; the second add's registration with the poller is refused (epoll_ctl: ENOSPC)", bounds=_set_b)
H("rxset_one_member_eintr", ["C06"], sym=_set_sym + "; the first wait is interrupted (EINTR)", bounds=_set_b)
for n in ["rxset_crash_after_1", "rxset_crash_after_2"]:
    H(n, ["C12", "C06"], sym=_set_sym + "; the second member's only sender dies after 1 / 2 of 3 packets", bounds=_set_b)
H("rxset_crash_after_1_surv", ["C12"], sym=_set_sym + "; the sender dies after 1 of 3 packets while another handle of the channel survives", bounds=_set_b)
# recv_plan_sym_60 (all packet boundaries of a 60-byte message symbolic) exists in h_recv.rs but runs out of memory even at 45 GB
# (symex 91 s, solver 486 s): the receive side is decided on the concrete plans recv_short_* + the window M-queries.

H("c16_drop_undecoded_fd0", ["C16", "C03", "C11"], sym="payload bytes symbolic; one unconverted channel attachment whose descriptor number is 0", bounds="unwind 19")

HARNESSES["send_many_64_frag"]["props"].append("C02")
for _h in ["recv_short_20_d", "recv_short_24_e"]:
    HARNESSES[_h]["props"].append("C04")   # a re-fragmented small message: the dedicated channel must not come out as an attachment
HARNESSES["send_plan_noatt_enobufs_q"]["props"].append("C02")   # a refused fragment must be re-sent, not skipped (order/completeness)
for _h in ["shm_ipc_3", "send_moves_receiver_frag", "send_moves_receiver_small", "ser_nested_ok"]:
    HARNESSES[_h]["props"].append("C18")   # odd numbers of descriptors: CMSG_LEN != CMSG_SPACE (control buffer read in full by the model)
for _h in ["transit_unpacked_fd0_dropped_small"]:
    HARNESSES[_h]["props"].append("C11")   # a received receiving end on descriptor 0 must be closed when dropped   # 65 descriptors on the header packet = follow-ups read from a user channel

for n in ["recv_interleaved_ab", "recv_interleaved_ba"]:
    H(n, ["C02"], sym="contents of both messages symbolic; two multi-packet messages whose packets interleave (follow-ups of the later message arrive first), header order concrete (name)", bounds="unwind 6; 2 messages of 3 and 2 packets")
for n in ["sender_transit_queued", "sender_transit_carrier_dropped", "sender_transit_unpacked_dropped"]:
    H(n, ["C03"], sym="message bytes symbolic; the last sender handle of a channel travels inside a queued message (injected)", bounds="unwind 6")
# (String and Vec<IpcSender> targets were tried: UTF-8 validation / element loops over a symbolic length did not finish in 900 s)
for n in ["c16_vec_u16_00", "c16_nested_struct_00", "c16_opt_sender_10"]:
    H(n, ["C16"], sym=_c16_sym, bounds=_c16_b, opt=["REACH_OK"] if n == "c16_nested_struct_00" else [], tier="thorough" if n == "c16_vec_u16_00" else "quick", timeout=1500)
for n in ["ipc_val_nested_struct"]:
    H(n, ["C01"], sym="the sent VALUE symbolic (nested struct with Option, enum, array, signed integer)", bounds="unwind 8")
