#!/bin/bash
# stop every runner / kani / cbmc process (helper for interactive use)
for n in cbmc cargo-kani kani-driver goto-instrument goto-cc; do killall -9 $n 2>/dev/null; done
ps -eo pid,args | awk '/python3 (\/verif\/)?run\.py/ && !/awk/ {print $1}' | xargs -r kill -9
true
