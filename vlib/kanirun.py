"""Run Kani harnesses of /verif/kani against /repo's current working tree and classify the results.

Pipeline per harness (DESIGN §2/E1, §4):
  1. cargo kani --only-codegen            (compiles /repo with kani-compiler; cargo fingerprints
                                           /repo's sources, so an edited tree is always rebuilt)
  2. goto-instrument --list-goto-functions on the harness's goto binary -> mangled names ->
     --unwindset: recursion caps for the io::Error/bincode::Error drop-glue cycle (guarded by
     CBMC's recursion unwinding assertion) + per-loop bounds requested by the harness table
  3. cargo kani --harness H --cbmc-args --unwindset ...   under RLIMIT_AS and a timeout
  4. parse: failed checks, cover results, unwinding assertions, solver statistics
  5. on failure: concrete playback values -> native replay of the same harness over the real
     kernel (dev and release profile)
Verdicts: PASS / FAIL (counterexample) / INCONCLUSIVE (never a pass).
"""
import os, re, subprocess, time, json, glob, shutil, resource, threading

VERIF = os.path.dirname(os.path.dirname(os.path.abspath(__file__)))
CRATE = os.path.join(VERIF, "kani")
REPLAY_CRATE = os.path.join(VERIF, "replay")
CACHE = os.environ.get("IPC_VERIF_CACHE", "/root/.cache/ipc-verif")
# --no-assertion-reach-checks: Kani's reachability checks are asserts expected to fail, and CBMC's JSON output
# carries a full trace for every failing property (1.6 GB / +100 s for a round-trip harness); vacuity is
# witnessed by our own WITNESS: checks instead
KFLAGS = ["-Z", "c-ffi", "-Z", "stubbing", "-Z", "unstable-options", "--no-assertion-reach-checks"]

# members of the error-value drop-glue cycle (io::Error -> Custom -> Box<dyn Error> -> UnixError /
# bincode::ErrorKind -> io::Error ...).  Capped at recursion depth 1; CBMC's recursion unwinding
# assertion fails (=> INCONCLUSIVE) if an execution could go deeper.
RECURSION_CAP = re.compile(
    r"^(std::ptr::drop_glue::<("
    r"std::io::Error|core::io::error::repr::Repr|core::io::error::ErrorData<core::io::CustomOwner>|"
    r"core::io::CustomOwner|core::io::error::Custom|ipc_channel::platform::unix::UnixError|"
    r"std::boxed::Box<(bincode|ipc_channel)::ErrorKind>|(bincode|ipc_channel)::ErrorKind|"
    r"std::boxed::Box<bincode::error::ErrorKind>|bincode::error::ErrorKind|"
    r"ipc_channel::ipc::IpcError|ipc_channel::ipc::TryRecvError"
    r")>"
    r"|<(core::io::error::repr::Repr|core::io::CustomOwner|core::io::error::Custom|"
    r"std::boxed::Box<(bincode|ipc_channel)::ErrorKind>|std::boxed::Box<bincode::error::ErrorKind>) as std::ops::Drop>::drop"
    r")$")

_seed_lock = threading.Lock()
_seeded = {}


def env_offline(extra=None):
    e = dict(os.environ)
    e["CARGO_NET_OFFLINE"] = "true"
    e.pop("RUSTFLAGS", None)
    if extra:
        e.update(extra)
    return e


def sync_lock():
    """Snapshot the harness crates for this run (so that editing /verif while a check runs cannot
    disturb it) and give them /repo's own lock file.  /repo itself is NOT copied: the crates depend
    on it by absolute path, so every build sees /repo's current working tree."""
    global CRATE, REPLAY_CRATE
    snap = os.path.join(CACHE, "src", str(os.getpid()))
    shutil.rmtree(snap, ignore_errors=True)
    os.makedirs(snap)
    ign = shutil.ignore_patterns("target", "Cargo.lock")
    shutil.copytree(os.path.join(VERIF, "kani"), os.path.join(snap, "kani"), ignore=ign)
    shutil.copytree(os.path.join(VERIF, "replay"), os.path.join(snap, "replay"), ignore=ign)
    CRATE = os.path.join(snap, "kani")
    REPLAY_CRATE = os.path.join(snap, "replay")
    src = "/repo/Cargo.lock"
    if os.path.exists(src):
        for c in (CRATE, REPLAY_CRATE):
            shutil.copy(src, os.path.join(c, "Cargo.lock"))
    import atexit
    atexit.register(lambda: shutil.rmtree(snap, ignore_errors=True))


def goto_functions(binf):
    out = subprocess.run(["goto-instrument", "--list-goto-functions", binf], capture_output=True, text=True).stdout
    m = {}
    for l in out.splitlines():
        if " /* " in l:
            pretty, rest = l.split(" /* ", 1)
            mang = rest.split(" */")[0].split(",")[0]
            has_body = "body not available" not in rest
            m.setdefault(pretty, []).append((mang, has_body))
    return m


def find_bin(tdir, harness):
    c = glob.glob(os.path.join(tdir, "kani", "*", "debug", "build", "ipcv", "*", "out", f"*{harness}.out"))
    c = [x for x in c if not x.endswith(".symtab.out")]
    c = [x for x in c if re.search(r"\d+" + re.escape(harness) + r"\.out$", x)]
    c.sort(key=os.path.getmtime)
    return c[-1] if c else None


def seed_target(features, any_harness):
    """compile the dependencies once per feature set; per-harness target dirs start as copies"""
    with _seed_lock:
        if features in _seeded:
            return _seeded[features]
        sdir = os.path.join(CACHE, "kt", "_seed_" + features.replace(",", "_"))
        os.makedirs(sdir, exist_ok=True)
        cmd = ["cargo", "kani"] + KFLAGS + ["--features", features, "--target-dir", sdir, "--harness", "seed_noop", "--only-codegen"]
        with seed_flock(features):
            p = subprocess.run(cmd, cwd=CRATE, env=env_offline(), capture_output=True, text=True)
        _seeded[features] = (sdir, p.returncode, p.stdout + p.stderr)
        return _seeded[features]


class seed_flock:
    """inter-process lock on a seed target dir (several property runs may share the cache)"""
    def __init__(self, features):
        os.makedirs(os.path.join(CACHE, "kt"), exist_ok=True)
        self.path = os.path.join(CACHE, "kt", "_seed_" + features.replace(",", "_") + ".lock")

    def __enter__(self):
        import fcntl
        self.f = open(self.path, "w")
        fcntl.flock(self.f, fcntl.LOCK_EX)

    def __exit__(self, *a):
        import fcntl
        fcntl.flock(self.f, fcntl.LOCK_UN)
        self.f.close()


# loops of the model kernel have constant trip counts (its table sizes); they get exactly that
# bound whatever global unwind value a harness uses
KQ_LOOPS = {r"^kq::(alive_d).*$": 14, r"^kq::(open_fds|exit_process)$": 58, r"^kq::(has_open_fd|after_release)$": 10, r"^kq::(munmap|copy_out)$": 10, r"^kq::exit_process$": 58,
            r"^kq::(enqueue|recvmsg|recv)$": 8, r"^kq::(ep_notify|epoll_ctl|epoll_wait|ep_any_undelivered|ep_rescan_hangups)$": 6}
KQ_LOOPS_BIGFD = {r"^kq::(alive_d).*$": 142, r"^kq::(open_fds|exit_process)$": 232, r"^kq::has_open_fd$": 142, r"^kq::after_release$": 10, r"^kq::(munmap|copy_out)$": 10, r"^kq::exit_process$": 232,
                  r"^kq::(enqueue|recvmsg|recv)$": 72, r"^kq::(ep_notify|epoll_ctl|epoll_wait|ep_any_undelivered|ep_rescan_hangups)$": 6}
KREC_LOOPS = {r"^krec::sendmsg$": 8}
FS_ARRAY = int(os.environ.get("IPC_VERIF_FS_ARRAY", "320"))


LIBC_NAMES = {"fcntl", "dup", "dup2", "dup3", "close", "socketpair", "sendmsg", "recvmsg", "send", "recv", "sendto", "recvfrom", "poll",
              "ppoll", "mmap", "munmap", "fstat", "fstat64", "shm_open", "shm_unlink", "ftruncate", "ftruncate64", "socket", "connect",
              "bind", "listen", "accept", "accept4", "getsockopt", "setsockopt", "epoll_create", "epoll_create1", "epoll_ctl",
              "epoll_wait", "epoll_pwait", "eventfd", "pipe", "pipe2", "read", "write", "open", "open64", "openat", "unlink", "mkdir",
              "rmdir", "getpid", "clock_gettime", "nanosleep", "ioctl", "shutdown", "memfd_create", "syscall", "fork", "waitpid",
              "kill", "sigaction", "select", "readv", "writev", "lseek", "stat", "lstat", "getrandom"}


def run_harness(harness, features, loops=None, timeout=900, mem_gb=14, playback=False, keep=False, tag="", optional_witnesses=()):
    """returns dict(verdict, failed=[...], covers={...}, stats={...}, log=path)"""
    base_loops = dict(KQ_LOOPS_BIGFD if "bigfd" in features else KQ_LOOPS if "k_q" in features else KREC_LOOPS)
    base_loops.update(loops or {})
    loops = base_loops
    tdir = os.path.join(CACHE, "kt", f"{harness}{tag}.{os.getpid()}")
    logdir = os.path.join(CACHE, "logs")
    os.makedirs(logdir, exist_ok=True)
    log = os.path.join(logdir, harness + tag + (".pb" if playback else "") + ".log")
    res = dict(harness=harness, features=features, verdict="INCONCLUSIVE", failed=[], covers={}, stats={}, log=log,
               reason="", unwinding_failures=[], optional_witnesses=list(optional_witnesses))
    t0 = time.time()
    sdir, rc, out = seed_target(features, harness)
    if rc != 0:
        open(log, "w").write(out)
        errs = re.findall(r"^error[^\n]*", out, re.M)
        res["reason"] = "harness crate does not compile against /repo: " + (errs[0] if errs else "?")[:300]
        return res
    if not os.path.isdir(tdir):
        with seed_flock(features):
            shutil.copytree(sdir, tdir, symlinks=True)
    try:
        return _run(harness, features, loops, timeout, mem_gb, playback, tdir, log, res, t0)
    finally:
        if not keep:
            shutil.rmtree(tdir, ignore_errors=True)


_modmap = {}


def qualified(harness):
    """`module::name` of a harness (cargo kani --harness matches SUBSTRINGS unless --exact is given, so
    `recv_att_1s` would also run `recv_att_1s_multi25` and report its failures under the wrong name)"""
    if not _modmap:
        for f in glob.glob(os.path.join(CRATE, "src", "h_*.rs")):
            mod = os.path.basename(f)[:-3]
            for m in re.finditer(r"\bfn\s+([a-z0-9_]+)\s*\(\s*\)", open(f).read()):
                _modmap.setdefault(m.group(1), mod)
    return _modmap[harness] + "::" + harness if harness in _modmap else None


def _run(harness, features, loops, timeout, mem_gb, playback, tdir, log, res, t0):
    q = qualified(harness)
    sel = ["--harness", q, "--exact"] if q else ["--harness", harness]
    base = ["cargo", "kani"] + KFLAGS + ["--features", features, "--target-dir", tdir] + sel
    cg = subprocess.run(base + ["--only-codegen"], cwd=CRATE, env=env_offline(), capture_output=True, text=True)
    res["stats"]["codegen_s"] = round(time.time() - t0, 1)
    if cg.returncode != 0:
        open(log, "w").write(cg.stdout + cg.stderr)
        errs = re.findall(r"^error[^\n]*", cg.stdout + cg.stderr, re.M)
        res["reason"] = "codegen failed: " + (errs[0] if errs else "?")[:300]
        return res
    binf = find_bin(tdir, harness)
    if not binf:
        res["reason"] = "goto binary not found"
        return res
    fm = goto_functions(binf)
    us = []
    crate_fns = []
    for pretty, lst in fm.items():
        for mang, has_body in lst:
            if not has_body:
                continue
            if RECURSION_CAP.match(pretty):
                us.append(f"{mang}:1")
            for pat, bound in loops.items():
                if re.search(pat, pretty):
                    for k in range(6):  # all loops of that function
                        us.append(f"{mang}.{k}:{bound}")
            if pretty.startswith("ipc_channel::") or pretty.startswith("<ipc_channel::"):
                crate_fns.append(pretty)
    res["stats"]["crate_functions"] = sorted(set(crate_fns))
    res["stats"]["goto_functions_with_body"] = sum(1 for l in fm.values() for _, b in l if b)
    cmd = list(base)
    if playback:
        cmd += ["-Z", "concrete-playback", "--concrete-playback=print"]
    # The receiver's control buffer is a 272-byte malloc'd object; CBMC's default keeps arrays of
    # more than 64 elements out of field-sensitive constant propagation, which would turn every
    # received descriptor number (and from there the whole model state) symbolic.
    cmd += ["--cbmc-args", "--max-field-sensitivity-array-size", str(FS_ARRAY)]
    if us:
        cmd += ["--unwindset", ",".join(us)]
    t1 = time.time()

    def limit():
        b = int(mem_gb * (1 << 30))
        resource.setrlimit(resource.RLIMIT_AS, (b, b))
        os.setsid()
    cbmc_cmd = None
    with open(log, "w") as lf:
        p = subprocess.Popen(cmd, cwd=CRATE, env=env_offline(), stdout=lf, stderr=subprocess.STDOUT, preexec_fn=limit)
        while True:
            try:
                p.wait(timeout=0.25)
                break
            except subprocess.TimeoutExpired:
                pass
            if cbmc_cmd is None:
                cbmc_cmd = find_cbmc_cmd(p.pid)
            if time.time() - t1 > timeout:
                try:
                    os.killpg(p.pid, 9)
                except ProcessLookupError:
                    pass
                p.wait()
                res["reason"] = f"timeout after {timeout}s"
                res["stats"]["verify_s"] = round(time.time() - t1, 1)
                return res
    res["cbmc_cmd"] = cbmc_cmd
    res["stats"]["verify_s"] = round(time.time() - t1, 1)
    parse_log(log, res)
    return res


def find_cbmc_cmd(pgid):
    """command line of the cbmc process Kani started in process group `pgid` (from /proc)"""
    for d in os.listdir("/proc"):
        if not d.isdigit():
            continue
        try:
            st = open(f"/proc/{d}/stat").read()
            comm = st[st.index("(") + 1:st.rindex(")")]
            if comm != "cbmc":
                continue
            if int(st[st.rindex(")") + 2:].split()[2]) != pgid:
                continue
            return open(f"/proc/{d}/cmdline").read().split("\0")[:-1]
        except Exception:
            continue
    return None


def extract_values(cbmc_cmd, prop_name, timeout=1800, mem_gb=40):
    """Re-run CBMC on the harness's instrumented goto binary with --trace --stop-on-fail and read
    the bytes returned by every kani::any() on the failing path (what Kani's concrete playback
    does, but streaming the plain-text trace instead of holding a JSON trace in memory)."""
    cmd = [c for c in cbmc_cmd if c not in ("--json-ui", "--slice-formula")]
    if "--verbosity" in cmd:
        i = cmd.index("--verbosity")
        del cmd[i:i + 2]
    cmd += ["--trace", "--property", prop_name, "--verbosity", "4"]

    def limit():
        b = int(mem_gb * (1 << 30))
        resource.setrlimit(resource.RLIMIT_AS, (b, b))
        os.setsid()
    p = subprocess.Popen(cmd, stdout=subprocess.PIPE, stderr=subprocess.DEVNULL, text=True, errors="replace", preexec_fn=limit)
    vals = []
    violated = []
    t0 = time.time()
    in_any = False
    hdr = re.compile(r"^State \d+ .*function (\S.*?) (?:line \d+ )?thread \d+$")
    try:
        for line in p.stdout:
            if time.time() - t0 > timeout:
                break
            if line.startswith("State "):
                m = hdr.match(line.rstrip())
                fn = m.group(1) if m else ""
                in_any = "any_raw" in fn
                continue
            if in_any and "=" in line and not line.startswith("---"):
                lhs, rhs = line.strip().split("=", 1)
                if "return_value" in lhs:
                    m = re.search(r"\(([01 ]+)\)\s*$", rhs)
                    if m:
                        bits = m.group(1).replace(" ", "")
                        by = [int(bits[i:i + 8], 2) for i in range(0, len(bits), 8)]
                        vals.append(list(reversed(by)))  # little endian, as Kani lists them
                in_any = False
            if line.startswith("Violated property:"):
                violated.append(next(p.stdout, "").strip())
    finally:
        try:
            os.killpg(p.pid, 9)
        except ProcessLookupError:
            pass
        p.wait()
    return vals, violated


def parse_log(log, res):
    txt = open(log, errors="replace").read()
    st = res["stats"]
    m = re.search(r"Runtime Symex: ([\d.]+)s", txt)
    if m:
        st["symex_s"] = round(float(m.group(1)), 2)
    st["solver_s"] = round(sum(float(x) for x in re.findall(r"Runtime decision procedure: ([\d.]+)s", txt)), 2)
    m = re.search(r"Generated (\d+) VCC\(s\), (\d+) remaining after simplification", txt)
    if m:
        st["vccs"] = int(m.group(1))
        st["vccs_remaining"] = int(m.group(2))
    m = re.search(r"(\d+) variables, (\d+) clauses", txt)
    if m:
        st["sat_vars"] = int(m.group(1))
        st["sat_clauses"] = int(m.group(2))
    failed = []
    covers = {}
    witnesses = {}
    nchecks = 0
    nfail_or_ok = {"SUCCESS": 0, "FAILURE": 0, "UNREACHABLE": 0, "UNDETERMINED": 0}
    for blk in re.finditer(r"Check \d+: ([^\n]+)\n\s+- Status: (\w+)\n\s+- Description: \"(.*?)\"\n\s+- Location: ([^\n]*)", txt, re.S):
        name, status, desc, loc = blk.groups()
        nchecks += 1
        if ".cover." in name:
            covers[desc] = status
            continue
        m = re.search(r"WITNESS:([A-Z0-9_]+)", desc)
        if m:
            # reachable (FAILURE) wins if the same witness was instantiated more than once
            w = m.group(1)
            if witnesses.get(w) != "FAILURE":
                witnesses[w] = status
            continue
        nfail_or_ok[status] = nfail_or_ok.get(status, 0) + 1
        if status == "FAILURE":
            failed.append(dict(check=name, desc=desc.strip('"'), loc=loc.strip()))
    st["checks"] = nchecks
    st["checks_by_status"] = nfail_or_ok
    res["covers"] = covers
    res["witnesses"] = witnesses
    unwinding = [f for f in failed if "unwinding assertion" in f["desc"] or "recursion" in f["desc"].lower()]
    real = [f for f in failed if f not in unwinding]
    res["failed"] = real
    res["unwinding_failures"] = unwinding
    verdict = re.search(r"VERIFICATION:- (\w+)", txt)
    if not verdict:
        m = re.search(r"^error: ([^\n]*)", txt, re.M)
        res["reason"] = ("kani error: " + m.group(1)[:300]) if m else "no verdict in log (killed / out of memory?)"
        return
    if unwinding:
        res["reason"] = "unwinding assertion: " + "; ".join(sorted(set(f["loc"] for f in unwinding)))[:600]
        return
    if any("UNMODELLED libc call" in f["desc"] for f in real):
        res["failed"] = []
        res["reason"] = "; ".join(sorted(set(f["desc"] for f in real if "UNMODELLED" in f["desc"])))
        return
    if real:
        res["verdict"] = "FAIL"
        return
    # no real failure: the run counts only if CBMC really decided every check (a solver error or
    # out-of-memory run also prints FAILED, with no failed check) and the witnesses are reachable
    summary = re.search(r"\*\* (\d+) of (\d+) failed", txt)
    nwit_failed = sum(1 for v in witnesses.values() if v == "FAILURE")
    if nfail_or_ok.get("UNDETERMINED", 0) or not summary or nchecks == 0:
        res["reason"] = "FAILED without failed checks (solver error / out of memory)"
        return
    if verdict.group(1) != "SUCCESSFUL" and nwit_failed == 0:
        res["reason"] = "FAILED without failed checks (solver error / out of memory)"
        return
    missing = [w for w, v in witnesses.items() if v != "FAILURE" and w not in res.get("optional_witnesses", [])]
    if witnesses.get("REACH_END") != "FAILURE" and covers.get("REACH_END") != "SATISFIED" and "REACH_END" not in res.get("optional_witnesses", []):
        res["reason"] = "vacuous: end of harness not reachable"
        return
    if missing:
        res["reason"] = "vacuous: witness not reachable: " + ",".join(sorted(missing))
        return
    res["verdict"] = "PASS"
    return
    res["reason"] = "FAILED without failed checks (solver error / out of memory)"


def cleanup(harness, tag=""):
    shutil.rmtree(os.path.join(CACHE, "kt", f"{harness}{tag}.{os.getpid()}"), ignore_errors=True)


# ---------------------------------------------------------------------------------------------
# native replay

_native_lock = threading.Lock()
_native = {}


def build_native(profile):
    """profile: 'dev' | 'release'; returns (path-to-replay-binary | None, log)"""
    with _native_lock:
        if profile in _native:
            return _native[profile]
        tdir = os.path.join(CACHE, "native")
        cmd = ["cargo", "build", "--offline", "--target-dir", tdir]
        if profile == "release":
            cmd.append("--release")
        p = subprocess.run(cmd, cwd=REPLAY_CRATE, env=env_offline({"RUSTFLAGS": "--cfg ipc_channel_verif"}),
                           capture_output=True, text=True)
        binp = os.path.join(tdir, "release" if profile == "release" else "debug", "replay")
        _native[profile] = (binp if p.returncode == 0 and os.path.exists(binp) else None, p.stdout + p.stderr)
        return _native[profile]


REPLAY_CODES = {0: "end-reached", 101: "panic", 134: "abort", -6: "abort", 77: "blocks-forever",
                78: "assumption-failed", 79: "values-mismatch", 2: "no-such-harness"}


def replay_native(harness, values=None, seed=None, profile="dev", timeout=30):
    binp, blog = build_native(profile)
    if not binp:
        return dict(outcome="build-failed", detail=blog[-400:])
    args = [binp, harness]
    tmp = None
    if values is not None:
        os.makedirs(os.path.join(CACHE, "vals"), exist_ok=True)
        tmp = os.path.join(CACHE, "vals", f"{harness}.{os.getpid()}.{threading.get_ident()}.json")
        json.dump(values, open(tmp, "w"))
        args.append(tmp)
    elif seed is not None:
        args += ["--random", str(seed)]
    try:
        p = subprocess.run(args, capture_output=True, text=True, timeout=timeout, env=dict(os.environ, RUST_BACKTRACE="0"))
        code = p.returncode
        out = (p.stdout + p.stderr)
    except subprocess.TimeoutExpired as ex:
        code = 124
        out = "timeout"
    finally:
        if tmp and os.path.exists(tmp):
            os.unlink(tmp)
    outcome = REPLAY_CODES.get(code, f"exit-{code}")
    if code == 124:
        outcome = "hang"
    msg = ""
    m = re.search(r"panicked at ([^\n]*)\n([^\n]*)", out)
    if m:
        msg = (m.group(1) + " " + m.group(2)).strip()[:300]
    return dict(outcome=outcome, code=code, panic=msg, profile=profile, tail=out[-300:])


if __name__ == "__main__":
    import sys
    sync_lock()
    from table import HARNESSES
    d = HARNESSES.get(sys.argv[1], {})
    r = run_harness(sys.argv[1], sys.argv[2], loops=d.get("loops"), timeout=int(sys.argv[3]) if len(sys.argv) > 3 else 900,
                    mem_gb=d.get("mem_gb", 14), keep="--keep" in sys.argv, optional_witnesses=d.get("opt", ()))
    r["stats"].pop("crate_functions", None)
    print(json.dumps(r, indent=1))
